// C10: a generated function is a pure function of its arguments across evaluations.
//
// Explicit-state breadth-first search over HISTORIES executed on the real objects. A configuration
// is a small set of programs generated on ONE value.New() generator; a state is that generator with
// its functions, the result handles the host still holds, and (in the caller-owned-stack discipline)
// the host's stack. Transitions: Eval(f_i, arg_j) whose result is consumed completely / first
// element only / not at all / later (the handle is kept and consumed by a later transition, first
// element only or completely), Generate(new program) on the same generator, evaluation of another
// function of the same generator. Real objects cannot be cloned: a successor is computed by
// replaying the shortest path on a fresh generator plus one transition.
//
// Oracle (differential, no hand-written expectation): the outcome of every Eval(f_i, arg_j) — in
// whatever consumption mode, whenever it is finally consumed — equals the outcome of the same call,
// consumed through the same modes, as the FIRST evaluation on a FRESH plain generator with a freshly
// generated function. Outcomes are canonical strings (value by kind and content, closures observed by
// calling them, or "error").
//
// States are deduplicated on a canonical key read through overlay accessors: per function the
// hidden state (itemsPresent, len, cap, size hint, backing-array sharing, nested lists) of every list
// the optimizer folded into a constant of that function — handles are kept by a pass-through recorder
// around the generator's own optimizer —, the host's constants, the optimizer's scratch stack, the
// pending handles with their hidden state, and the residue on the caller-owned stack. The search of
// a configuration ends when a depth adds no new key (fixpoint: all longer histories are covered) or
// at the depth cap.
package main

import (
	"fmt"
	"hash/fnv"
	"os"
	"runtime/debug"
	"sort"
	"strings"

	"verif/internal/bex"
)

type env struct {
	ctx     *bex.Ctx
	sampled bool // a sample was taken in the current configuration
}

const whatDiffers = "outcome of an evaluation differs from the outcome of the same call as the first evaluation on a fresh generator"

// ---------------------------------------------------------------------------------------------
// breadth-first search of one configuration

type node struct {
	path []step
	abs  abstract
}

func (w *world) abstract() abstract {
	a := abstract{gen: make([]int, len(w.fns))}
	for i := range w.fns {
		a.gen[i] = w.fns[i].status
	}
	for _, p := range w.pending {
		a.pending = append(a.pending, absPend{f: p.f, arg: p.arg, half: p.half})
	}
	return a
}

func hash128(s string) [2]uint64 {
	h := fnv.New128a()
	h.Write([]byte(s))
	var sum [16]byte
	h.Sum(sum[:0])
	var o [2]uint64
	for i := 0; i < 8; i++ {
		o[0] = o[0]<<8 | uint64(sum[i])
		o[1] = o[1]<<8 | uint64(sum[8+i])
	}
	return o
}

func history(cfg *config, path []step) []string {
	var out []string
	for _, s := range path {
		out = append(out, s.render(cfg))
	}
	return out
}

func reproOf(space string, cfg *config, path []step) map[string]any {
	var steps []any
	for _, s := range path {
		steps = append(steps, s.json())
	}
	return map[string]any{"kind": "history", "space": space, "config": cfg.describe(), "steps": steps, "history": history(cfg, path),
		"arguments": argNames}
}

// compare reports a difference between the observed and the expected outcome of one step.
func (e *env) compare(space string, cfg *config, path []step, r stepResult, want outcome) bool {
	if r.got.s != want.s && (strings.Contains(r.got.msg, "iterator timed out") || strings.Contains(want.msg, "iterator timed out")) {
		// multiUse gives up when a consumer goroutine does not take an item within 5 s of wall time:
		// an overloaded machine, not the history
		if e.ctx != nil {
			e.ctx.Unspecified("multiUse timed out (5 s of wall time without a hand-over to a consumer goroutine): outcome depends on machine load")
		}
		return true
	}
	if r.got.s == want.s {
		if r.got.s == "error" && r.got.msg != want.msg && e.ctx != nil {
			if os.Getenv("VERIF_C10_ERRTEXT") != "" {
				// development aid: list the cases whose error text depends on the history
				rp := reproOf(space, cfg, path)
				e.ctx.Violate("error text differs", rp, want.msg, r.got.msg, "")
			}
			why := "both evaluations fail but with different error texts (the property fixes the outcome 'error', not the text)"
			switch {
			case strings.Contains(cfg.prog(r.f).Src, "multiUse"):
				why += ": multiUse over a failing source reports the error of whichever consumer goroutine fails first"
			case strings.Contains(r.got.msg, "error in single") && strings.Contains(want.msg, "error in single"):
				why += ": single() on a list with several items says 'more than one item in list' while the list is lazy and 'not a single item in list' once it is materialised"
			}
			e.ctx.Unspecified(why)
		}
		return true
	}
	if e.ctx != nil {
		rp := reproOf(space, cfg, path)
		rp["compared"] = fmt.Sprintf("%s of f%d = %q", r.what, r.f, cfg.prog(r.f).Src)
		if r.arg >= 0 {
			rp["compared"] = fmt.Sprintf("Eval(f%d = %q, a=%s), consumed: %s", r.f, cfg.prog(r.f).Src, argNames[r.arg], seqText(r.seq))
		}
		got, exp := r.got.s, want.s
		if r.got.msg != "" {
			got += " (" + r.got.msg + ")"
		}
		if want.msg != "" {
			exp += " (" + want.msg + ")"
		}
		e.ctx.Violate(whatDiffers, rp, exp, got, classify(cfg, path, r))
	}
	return false
}

// classify names the known-finding classifier matching a failing history ("" = none: no genuine
// defect of this property is known).
func classify(cfg *config, path []step, r stepResult) string { return "" }

func seqText(seq []int) string {
	if len(seq) == 0 {
		return "not consumed (only failed-or-not and the kind of the result are compared)"
	}
	var s []string
	for _, m := range seq {
		s = append(s, modeNames[m])
	}
	return strings.Join(s, ", then ")
}

func outcomeClass(s step, r stepResult) string {
	res := "value"
	switch {
	case r.got.s == "error":
		res = "error"
	case r.got.s == "panic":
		res = "panic"
	case strings.Contains(r.got.s, "error"):
		res = "value with a failing part"
	}
	switch s.Kind {
	case 'g':
		return "Generate on the used generator: " + r.got.s
	case 'c':
		return "kept result consumed later (" + modeNames[s.Mode] + "): " + res
	}
	return "Eval consumed " + modeNames[s.Mode] + ": " + res
}

// sampleHere spreads the verbatim samples of the evidence over the spaces (the driver keeps the first
// sample of each worker): worker i samples in space i mod 5 only, one sample per configuration, and
// only transitions in which a kept list / map / closure result is consumed after a further evaluation.
func (e *env) sampleHere(space string, cfg *config, got string) bool {
	names := []string{"single-function", "routes-and-caller-stack", "two-functions-one-generator", "host-constants-and-static-functions", "generate-in-between"}
	if !e.ctx.WantSample() || names[e.ctx.Shard%len(names)] != space || e.sampled {
		return false
	}
	if space == "routes-and-caller-stack" && cfg.Stack != sShared {
		return false
	}
	// a result with content: a list, a map or a closure
	return strings.HasPrefix(got, "first of") || strings.HasPrefix(got, "[") || strings.HasPrefix(got, "{") || strings.HasPrefix(got, "closure")
}

func (e *env) explore(space string, cfg *config) {
	e.sampled = false
	ctx := e.ctx
	or := newOracle(cfg)
	seen := map[[2]uint64]struct{}{}
	w0 := newWorld(cfg, true)
	k0 := w0.key()
	seen[hash128(k0.text)] = struct{}{}
	initConst := constLines(k0.text)
	frontier := []*node{{abs: w0.abstract()}}
	fix, completed := false, 0
	var trans int64
	defer func() {
		ctx.Add("states", int64(len(seen)))
		ctx.Add("states/"+space, int64(len(seen)))
		ctx.Add("transitions", trans)
		ctx.Add("transitions/"+space, trans)
		ctx.Add("traces_validated_against_impl", trans)
		ctx.Add("configurations", 1)
		switch {
		case fix:
			ctx.Add("configurations_fixpoint_reached", 1)
			ctx.Add(fmt.Sprintf("fixpoint_detected_at_depth_%02d", completed), 1)
			ctx.Max("max_depth_at_which_a_fixpoint_was_detected", int64(completed))
		case completed == cfg.Depth:
			ctx.Add("configurations_depth_cap_completed_without_fixpoint", 1)
			ctx.Add(fmt.Sprintf("cap_completed_without_fixpoint/%s/depth_%02d", space, completed), 1)
		default:
			ctx.Add("configurations_interrupted_by_budget", 1)
		}
	}()
	for d := 1; d <= cfg.Depth; d++ {
		var next []*node
		newKeys := 0
		for _, nd := range frontier {
			for _, s := range cfg.enabled(nd.abs) {
				if ctx.Expired() {
					return
				}
				path := append(append(make([]step, 0, len(nd.path)+1), nd.path...), s)
				ctx.Begin(func() map[string]any { return reproOf(space, cfg, path) })
				w := newWorld(cfg, true)
				for _, ps := range nd.path {
					w.apply(ps)
				}
				r := w.apply(s)
				ctx.Eval()
				trans++
				want := or.expect(r)
				ok := e.compare(space, cfg, path, r, want)
				ctx.Outcome(outcomeClass(s, r))
				if !ok {
					continue // a state reached through a wrong outcome is not explored further
				}
				ki := w.key()
				h := hash128(ki.text)
				_, known := seen[h]
				if known && d < noDedupDepth && d < cfg.Depth {
					// state that is invisible to the key (captured by Go closures) must not end the search at
					// once: all histories of length <= noDedupDepth are executed whatever their keys
					next = append(next, &node{path: path, abs: w.abstract()})
				}
				if !known {
					seen[h] = struct{}{}
					newKeys++
					if ki.pending > 0 || constLines(ki.text) != initConst {
						ctx.Nontrivial(cfg.Name + "\x00" + ki.text)
					}
					if d < cfg.Depth {
						next = append(next, &node{path: path, abs: w.abstract()})
					}
					// sample: a kept result consumed after at least one further evaluation
					if d >= 3 && s.Kind == 'c' && nd.path[len(nd.path)-1].Kind == 'e' && e.sampleHere(space, cfg, r.got.s) {
						ctx.Sample(map[string]any{"space": space, "configuration": cfg.describe(), "history": history(cfg, path),
							"compared": fmt.Sprintf("%s f%d arg %d consumed %s", r.what, r.f, r.arg, seqText(r.seq)),
							"outcome":  r.got.s, "outcome_on_fresh_generator": want.s,
							"canonical_key_of_successor": strings.Split(strings.TrimSpace(ki.text), "\n")})
						e.sampled = true
					}
				}
			}
		}
		completed = d
		frontier = next
		if newKeys == 0 && d >= noDedupDepth {
			fix = true
			break
		}
	}
}

// ---------------------------------------------------------------------------------------------
// long histories on plain generators (no recorder, no accessor): the property's "sequences of up to
// 50 evaluations", on a fixed schedule that cycles through functions, arguments and consumption modes

const longSteps = 50

// noDedupDepth: histories up to this length are all executed, without merging states of equal key.
const noDedupDepth = 2

type keptH struct {
	h   *handle
	due int
}

// runLong executes schedule `variant` up to and including step `upto`; it returns the first
// difference (step, what was compared, expected, observed).
func runLong(cfg *config, variant, upto int, count func(n int64), cmp func(k int, r stepResult, want outcome) bool) {
	strides := [][3]int{{1, 1, 1}, {2, 3, 1}, {3, 1, 2}}
	sv := strides[variant%len(strides)]
	w := newWorld(cfg, false)
	or := newOracle(cfg)
	var kept []keptH
	lateNext := 0
	for k := 0; k <= upto && k < longSteps; k++ {
		// consume the handles that are due: first element only when k is even (the handle stays),
		// completely when k is odd
		var keep []keptH
		for _, kh := range kept {
			if kh.due > k {
				keep = append(keep, kh)
				continue
			}
			seq := []int{mFull}
			if kh.h.half {
				seq = []int{mFirst, mFull}
			}
			if k%2 == 0 && !kh.h.half {
				got := w.consume(kh.h, mFirst)
				kh.h.half = true
				count(1)
				if !cmp(k, stepResult{what: "Eval", f: kh.h.f, arg: kh.h.arg, seq: []int{mFirst}, got: got}, or.expect(stepResult{what: "Eval", f: kh.h.f, arg: kh.h.arg, seq: []int{mFirst}})) {
					return
				}
				keep = append(keep, keptH{h: kh.h, due: k + 2})
				continue
			}
			got := w.consume(kh.h, mFull)
			count(1)
			if !cmp(k, stepResult{what: "Eval", f: kh.h.f, arg: kh.h.arg, seq: seq, got: got}, or.expect(stepResult{what: "Eval", f: kh.h.f, arg: kh.h.arg, seq: seq})) {
				return
			}
		}
		kept = keep
		if k%12 == 11 && lateNext < len(cfg.Late) {
			r := w.apply(step{Kind: 'g', F: len(cfg.Init) + lateNext})
			lateNext++
			count(1)
			if !cmp(k, r, or.expect(r)) {
				return
			}
			continue
		}
		var live []int
		for f := range w.fns {
			if w.fns[f].status == 1 {
				live = append(live, f)
			}
		}
		f := live[(k*sv[2])%len(live)]
		arg := (k*sv[0] + k/5) % nArgs
		mode := (k*sv[1] + k/3) % 4
		if mode == mKeep && len(kept) >= 3 {
			mode = mFull
		}
		h := w.eval(f, arg)
		count(1)
		r := stepResult{what: "Eval", f: f, arg: arg}
		switch mode {
		case mFull, mFirst:
			r.seq = []int{mode}
			r.got = w.consume(h, mode)
		default:
			r.got = shallow(h)
			if mode == mKeep {
				kept = append(kept, keptH{h: h, due: k + 1 + k%4})
			}
		}
		if !cmp(k, r, or.expect(r)) {
			return
		}
	}
}

func (e *env) long(space string, cfg *config, variants int) {
	ctx := e.ctx
	for v := 0; v < variants; v++ {
		if ctx.Expired() {
			return
		}
		repro := func(upto int) map[string]any {
			return map[string]any{"kind": "long-history", "space": space, "config": cfg.describe(), "variant": v, "upto": upto, "arguments": argNames}
		}
		ctx.Begin(func() map[string]any { return repro(longSteps) })
		ctx.Eval()
		ctx.Add("long_plain_histories", 1)
		failed := false
		runLong(cfg, v, longSteps, func(n int64) { ctx.Add("long_plain_history_steps", n) }, func(k int, r stepResult, want outcome) bool {
			if r.got.s == want.s {
				return true
			}
			failed = true
			rp := repro(k)
			rp["compared"] = fmt.Sprintf("%s of f%d = %q, argument %d, consumed: %s", r.what, r.f, cfg.prog(r.f).Src, r.arg, seqText(r.seq))
			ctx.Violate(whatDiffers+" (long plain history)", rp, want.s, r.got.s, classify(cfg, nil, r))
			return false
		})
		if failed {
			ctx.Outcome("long plain history: difference")
		} else {
			ctx.Outcome("long plain history: every outcome as on a fresh generator")
		}
	}
}

// ---------------------------------------------------------------------------------------------
// the spaces

var allModes = []int{mFull, mFirst, mNone, mKeep}

type bounds struct {
	singleDepth, regenDepth, multiDepth, hostDepth, productDepth int
	routeEvery, regenEvery, multiEvery                           int // every n-th program of the family
	multiPending, singlePending, routePending                    int
	longVariants                                                 int
	partners                                                     []int // a raw program is paired with the programs this many places further
}

func boundsOf(quick bool) bounds {
	if quick {
		return bounds{singleDepth: 10, regenDepth: 6, multiDepth: 4, hostDepth: 4, productDepth: 3, routeEvery: 1, regenEvery: 3, multiEvery: 2, multiPending: 1, singlePending: 2, routePending: 1, longVariants: 1, partners: []int{37}}
	}
	return bounds{singleDepth: 14, regenDepth: 8, multiDepth: 7, hostDepth: 8, productDepth: 5, routeEvery: 1, regenEvery: 1, multiEvery: 1, multiPending: 2, singlePending: 3, routePending: 2, longVariants: 3, partners: []int{37, 71}}
}

type spaceDef struct {
	name  string
	cfgs  []*config
	bound string
	long  int // number of long plain histories per configuration
}

func spaces(quick bool) []spaceDef {
	b := boundsOf(quick)
	ps := programs()
	var out []spaceDef

	// 1. every program alone on its generator, plain Generate, Func.Eval
	var single []*config
	for i := range ps {
		single = append(single, &config{Name: "single/" + ps[i].ID, Init: []progSpec{ps[i]}, Route: rGenerate, Stack: sFresh, Modes: allModes, MaxPending: b.singlePending, Depth: b.singleDepth})
	}
	out = append(out, spaceDef{name: "single-function", cfgs: single, long: b.longVariants,
		bound: fmt.Sprintf("each of the %d programs alone on its generator (Generate, Func.Eval): every history over Eval(f, 5 arguments) x {full, first element only, not at all, later} + consumption of the kept handle (first element only / completely), at most %d handles pending at a time, BFS to the fixpoint of the state key (depth cap %d)", len(ps), b.singlePending, b.singleDepth)})

	// 2. the same programs through the other routes and with one caller-owned stack
	var routes []*config
	for i := range ps {
		if i%b.routeEvery != 0 {
			continue
		}
		routes = append(routes,
			&config{Name: "with-map/" + ps[i].ID, Init: []progSpec{ps[i]}, Route: rWithMap, Stack: sFresh, Modes: allModes, MaxPending: b.routePending, Depth: b.singleDepth},
			&config{Name: "ast-func/" + ps[i].ID, Init: []progSpec{ps[i]}, Route: rAstFunc, Stack: sFresh, Modes: allModes, MaxPending: b.routePending, Depth: b.singleDepth},
			&config{Name: "caller-stack/" + ps[i].ID, Init: []progSpec{ps[i]}, Route: rGenerate, Stack: sShared, Modes: allModes, MaxPending: b.routePending, Depth: b.singleDepth})
	}
	out = append(out, spaceDef{name: "routes-and-caller-stack", cfgs: routes,
		bound: fmt.Sprintf("the same programs (every %d. of them) through GenerateWithMap (argument {a: arg}), through CreateAst+GenerateFunc (ParserFunc called without the top-level recover), and through Generate with ONE caller-owned stack reused via Stack.Init for all evaluations and consumptions (the residue on that stack is part of the state key); same alphabet, at most %d handles pending, depth cap %d", b.routeEvery, b.routePending, b.singleDepth)})

	// 3. Generate on the used generator: the same program text again, and a program that does not parse
	var regen []*config
	for i := range ps {
		if i%b.regenEvery != 0 {
			continue
		}
		broken := progSpec{ID: ps[i].ID + "/broken", Family: ps[i].Family, Src: ps[i].Src + " +"}
		late := []progSpec{ps[i], broken}
		if n := leakName(ps[i].Src); n != "" {
			// a name the first program binds with let/func, used unbound: must not be known to a later Generate
			late = append(late, progSpec{ID: ps[i].ID + "/leak", Family: ps[i].Family, Src: "[" + n + ", a]"})
		}
		regen = append(regen, &config{Name: "regenerate/" + ps[i].ID, Init: []progSpec{ps[i]}, Late: late, Route: rGenerate, Stack: sFresh,
			Modes: allModes, MaxPending: 1, Depth: b.regenDepth})
	}
	out = append(out, spaceDef{name: "generate-in-between", cfgs: regen, long: b.longVariants,
		bound: fmt.Sprintf("every %d. program with two Generate transitions on the used generator (the same program text again: a second function instance; the text with a trailing operator: Generate fails; a name bound by let/func in the first program used unbound: Generate fails) interleaved at every position with the evaluations of both instances; all 4 consumption modes, one pending handle, depth <= %d", b.regenEvery, b.regenDepth)})

	// 4. two different programs on one generator plus a later Generate of the first one
	raw := []progSpec{}
	for _, p := range ps {
		if strings.HasSuffix(p.ID, "/raw") {
			raw = append(raw, p)
		}
	}
	var multi []*config
	for i := range raw {
		if i%b.multiEvery != 0 {
			continue
		}
		for _, off := range b.partners {
			j := (i + off) % len(raw)
			multi = append(multi, &config{Name: "pair/" + raw[i].ID + "+" + raw[j].ID, Init: []progSpec{raw[i], raw[j]}, Late: []progSpec{raw[i]}, Route: rGenerate, Stack: sFresh,
				Modes: []int{mFull, mKeep}, MaxPending: b.multiPending, Depth: b.multiDepth})
		}
	}
	out = append(out, spaceDef{name: "two-functions-one-generator", cfgs: multi, long: b.longVariants,
		bound: fmt.Sprintf("every %d. raw program paired with the program(s) %v places further in the family on one generator, plus Generate of the first text again: Eval of either function x 5 arguments x {full, later}, consumption of kept handles, <= %d handles pending, depth <= %d", b.multiEvery, b.partners, b.multiPending, b.multiDepth)})

	// 5. state provided by the host: constants registered with AddConstant (shared by all functions of
	// the generator) and static functions compiled from strings on a second generator
	var host []*config
	hp := hostConstPrograms()
	for i := 0; i+1 < len(hp); i += 2 {
		for _, st := range []string{sFresh, sShared} {
			host = append(host, &config{Name: "host-constants/" + hp[i].ID + "+" + hp[i+1].ID + "/" + stackTag(st), Init: []progSpec{hp[i], hp[i+1]}, Late: []progSpec{hp[(i+2)%len(hp)]}, Route: rGenerate, Stack: st, Setup: "hostconst",
				Modes: allModes, MaxPending: 1, Depth: b.hostDepth})
		}
	}
	sp := staticPrograms()
	for i := range sp {
		for _, st := range []string{sFresh, sShared} {
			host = append(host, &config{Name: "static-from-string/" + sp[i].ID + "/" + stackTag(st), Init: []progSpec{sp[i]}, Late: []progSpec{sp[(i+1)%len(sp)]}, Route: rGenerate, Stack: st, Setup: "static",
				Modes: allModes, MaxPending: 1, Depth: b.hostDepth})
		}
	}
	np := nestedPrograms()
	for i := range np {
		for _, st := range []string{sFresh, sShared} {
			host = append(host, &config{Name: "nested-evaluation/" + np[i].ID + "/" + stackTag(st), Init: []progSpec{np[i]}, Late: []progSpec{np[(i+1)%len(np)]}, Route: rGenerate, Stack: st, Setup: "nested",
				Modes: allModes, MaxPending: 1, Depth: b.hostDepth})
		}
	}
	out = append(out, spaceDef{name: "host-constants-and-static-functions", cfgs: host, long: b.longVariants,
		bound: fmt.Sprintf("%d programs over two host lists registered with AddConstant (lazily produced; spare capacity) in pairs sharing the constants, and %d programs calling static functions compiled by GenerateFromString / CreateAst+GenerateFunc on a second generator (folded lazy constant, pure and impure; closure; index into a constant; let with a failing branch), and %d programs calling a host function that evaluates another generated function of the same generator with Func.Eval while the calling evaluation is running (the reference implements that function in Go); each with a later Generate, both stack disciplines, all 4 modes, depth <= %d", len(hp), len(sp), len(np), b.hostDepth)})
	// 6. every kind of constant list x every kind of run-time consumer
	var prod []*config
	for _, p := range constProductPrograms() {
		prod = append(prod, &config{Name: "product/" + p.ID, Init: []progSpec{p}, Route: rGenerate, Stack: sFresh, Modes: allModes, MaxPending: 1, Depth: b.productDepth})
	}
	out = append(out, spaceDef{name: "constant-stage-x-consumer", cfgs: prod, long: 1,
		bound: fmt.Sprintf("%d kinds of constant list (literal, every lazy stage of the library, append/concat/eval results, nested in a map/list) x %d run-time consumers (readers, lazy results returned to the host, appends, comparisons and membership with the constant on either side, self-combinations, failing and half-consumed iterations, closures, multiUse): %d programs, each alone on its generator; every history over Eval(f, 5 arguments) x 4 consumption modes, one pending handle, depth <= %d, plus one long plain history of %d evaluations", len(constStages), len(constConsumers), len(prod), b.productDepth, longSteps)})
	return out
}

func stackTag(st string) string {
	if st == sShared {
		return "caller-stack"
	}
	return "fresh-stack"
}

// leakName returns the first name a program binds with let or func.
func leakName(src string) string {
	for _, kw := range []string{"let ", "func "} {
		if i := strings.Index(src, kw); i >= 0 {
			rest := src[i+len(kw):]
			j := strings.IndexAny(rest, "=(")
			if j > 0 {
				return strings.TrimSpace(rest[:j])
			}
		}
	}
	return ""
}

func run(ctx *bex.Ctx) {
	debug.SetGCPercent(200)
	e := &env{ctx: ctx}
	var idx int64
	// development aid: VERIF_C10_DEV="space=<name>,stride=<n>" restricts the run to one space and to
	// every n-th configuration (to estimate the cost of bounds); never set by bin/verif
	devSpace, devStride := "", 1
	for _, kv := range strings.Split(os.Getenv("VERIF_C10_DEV"), ",") {
		if v, ok := strings.CutPrefix(kv, "space="); ok {
			devSpace = v
		}
		if v, ok := strings.CutPrefix(kv, "stride="); ok {
			fmt.Sscan(v, &devStride)
		}
	}
	for _, sd := range spaces(ctx.Quick()) {
		if devSpace != "" && devSpace != sd.name {
			continue
		}
		ctx.Space(sd.name)
		for ci, cfg := range sd.cfgs {
			if ci%devStride != 0 {
				continue
			}
			mine := ctx.Mine(idx)
			idx++
			if !mine {
				continue
			}
			if ctx.Expired() {
				break
			}
			e.explore(sd.name, cfg)
			if sd.long > 0 {
				e.long(sd.name, cfg, sd.long)
			}
		}
		ctx.SpaceDone(sd.bound)
	}
}

// ---------------------------------------------------------------------------------------------
// evidence

func extra(merged *bex.Result, cov map[string]any) {
	c := merged.Counters
	var capped []string
	for k, v := range c {
		if strings.HasPrefix(k, "cap_completed_without_fixpoint/") {
			capped = append(capped, fmt.Sprintf("%s: %d", strings.TrimPrefix(k, "cap_completed_without_fixpoint/"), v))
		}
	}
	sort.Strings(capped)
	var depths []string
	for k, v := range c {
		if strings.HasPrefix(k, "fixpoint_detected_at_depth_") {
			depths = append(depths, fmt.Sprintf("depth %s: %d", strings.TrimPrefix(k, "fixpoint_detected_at_depth_"), v))
		}
	}
	sort.Strings(depths)
	fp := fmt.Sprintf("fixpoint of the state key reached (a complete BFS level added no new key, so every longer history only revisits explored states) in %d of %d configurations [%s]",
		c["configurations_fixpoint_reached"], c["configurations"], strings.Join(depths, ", "))
	if n := c["configurations_depth_cap_completed_without_fixpoint"]; n > 0 {
		fp += fmt.Sprintf("; in %d configurations the depth cap was completed without a fixpoint [%s]", n, strings.Join(capped, ", "))
	}
	if n := c["configurations_interrupted_by_budget"]; n > 0 {
		fp += fmt.Sprintf("; %d configurations were interrupted by the time budget", n)
	}
	cov["fixpoint"] = fp
	cov["programs"] = int64(len(programs()) + len(hostConstPrograms()) + len(staticPrograms()) + len(nestedPrograms()) + len(constProductPrograms()))
	cov["argument_pool"] = argNames
}

// ---------------------------------------------------------------------------------------------
// replay of a recorded case

func num(v any) int {
	f, _ := v.(float64)
	return int(f)
}

func cfgFrom(m map[string]any) *config {
	c := &config{}
	c.Name, _ = m["name"].(string)
	c.Route, _ = m["route"].(string)
	c.Stack, _ = m["stack"].(string)
	c.Setup, _ = m["setup"].(string)
	c.MaxPending = num(m["max_pending"])
	rd := func(key string) []progSpec {
		var out []progSpec
		l, _ := m[key].([]any)
		for _, x := range l {
			pm, _ := x.(map[string]any)
			id, _ := pm["id"].(string)
			src, _ := pm["src"].(string)
			out = append(out, progSpec{ID: id, Src: src})
		}
		return out
	}
	c.Init, c.Late = rd("init"), rd("late")
	md, _ := m["modes"].([]any)
	for _, x := range md {
		c.Modes = append(c.Modes, num(x))
	}
	return c
}

func replay(repro map[string]any) (obs string, fails bool) {
	defer func() {
		if rec := recover(); rec != nil {
			obs, fails = fmt.Sprintf("replay failed: %v", rec), true
		}
	}()
	cm, _ := repro["config"].(map[string]any)
	cfg := cfgFrom(cm)
	switch repro["kind"] {
	case "history":
		raw, _ := repro["steps"].([]any)
		var path []step
		for _, x := range raw {
			m, _ := x.(map[string]any)
			k, _ := m["kind"].(string)
			path = append(path, step{Kind: k[0], F: num(m["f"]), Arg: num(m["arg"]), Mode: num(m["mode"]), H: num(m["h"])})
		}
		w := newWorld(cfg, true)
		or := newOracle(cfg)
		var r stepResult
		for _, s := range path {
			r = w.apply(s)
		}
		want := or.expect(r)
		obs = fmt.Sprintf("after %s: observed %s; the same call as first evaluation on a fresh generator: %s", strings.Join(history(cfg, path), "; "), r.got.s, want.s)
		return obs, r.got.s != want.s
	case "long-history":
		runLong(cfg, num(repro["variant"]), num(repro["upto"]), func(int64) {}, func(k int, r stepResult, want outcome) bool {
			if r.got.s != want.s {
				obs = fmt.Sprintf("step %d of schedule %d: %s of f%d with argument %d consumed %s: observed %s; on a fresh generator: %s", k, num(repro["variant"]), r.what, r.f, r.arg, seqText(r.seq), r.got.s, want.s)
				fails = true
				return false
			}
			return true
		})
		if !fails {
			obs = "every outcome of the history equals the outcome on a fresh generator"
		}
		return
	}
	return "unknown kind of case", true
}

// dump prints the program family with the outcomes on fresh generators (development aid:
// VERIF_C10_DUMP=1 bin/verif check C10).
func dump() {
	all := append(append(append(programs(), hostConstPrograms()...), staticPrograms()...), nestedPrograms()...)
	for _, p := range all {
		setup := ""
		switch p.Family {
		case "L-host-constant":
			setup = "hostconst"
		case "M-static-from-string":
			setup = "static"
		case "N-nested-evaluation":
			setup = "nested"
		}
		for _, route := range []string{rGenerate, rWithMap, rAstFunc} {
			cfg := &config{Name: "dump", Init: []progSpec{p}, Route: route, Stack: sFresh, Setup: setup}
			fmt.Printf("%-10s %-24s %s\n", p.ID, route, p.Src)
			func() {
				defer func() {
					if rec := recover(); rec != nil {
						fmt.Printf("    PANIC %v\n", rec)
					}
				}()
				w := newWorld(cfg, true)
				fmt.Printf("    key: %s\n", strings.ReplaceAll(strings.TrimSpace(w.key().text), "\n", " | "))
				for a := 0; a < nArgs; a++ {
					w := newWorld(cfg, false)
					h := w.eval(0, a)
					f := w.consume(h, mFirst)
					o := w.consume(h, mFull)
					fmt.Printf("    a=%-3d first: %-40s full: %s %s\n", a, f.s, o.s, o.msg)
				}
			}()
			if os.Getenv("VERIF_C10_DUMP") != "routes" {
				break
			}
		}
	}
}

func main() {
	if os.Getenv("VERIF_C10_DUMP") != "" {
		dump()
		return
	}
	bex.Main(&bex.Check{
		ID:    "C10",
		Level: "model_checking",
		Rule:  "explicit-state breadth-first search over histories on the real objects: a configuration is a small set of programs generated on ONE value.New() generator; transitions are Eval(f_i, arg_j) with the result consumed completely / first element only / not at all / later (handle kept, consumed by a later transition), Generate(new program) on the same generator, evaluation of another function of the generator; the successor of a state is computed by replaying the shortest path on a fresh generator plus the transition; every transition's outcome (canonical string: value by kind and content, closures observed by calling them, or 'error') is compared with the outcome of the same call, consumed through the same modes, as the FIRST evaluation on a FRESH plain generator with a freshly generated function. evaluations = transitions executed on the real objects plus long plain histories; states = distinct canonical keys per configuration, summed (key = hidden state itemsPresent/len/cap/size hint/array sharing/nested lists of every list folded into a constant of every function, of the host's constants, the optimizer's scratch stack, the pending handles, the residue of the caller-owned stack); distinct_nontrivial = distinct states that have a pending result handle or differ from the configuration's initial state in the hidden state of a constant or in the set of generated functions",
		Assumptions: []string{
			"the reference is the implementation itself on a fresh generator (differential oracle): a result that is wrong already on the first evaluation is the subject of C01/C07, not of this check",
			"error texts are not compared: two failing evaluations are equal outcomes (differences in the text are counted under unspecified_excluded)",
			"handles on the folded constants are obtained by wrapping the generator's own optimizer (obtained through an overlay accessor, handed back through the public SetOptimizer) in a pass-through recorder; the reference generators and the long plain histories run without it",
			"argument values are built fresh for every evaluation (sharing of argument objects between evaluations is C09's subject); lists are kept < 12 elements so that map/accept stay in the iterator's sequential mode (C06/C11); random/randomConst and the hash-ordered groupBy/unique methods are not used",
			"closures are observed by calling them with fixed probe arguments (0 and 2; (1,2))",
			"in the nested-evaluation configurations the host function other(x) evaluates a second generated function of the same generator with Func.Eval while the calling evaluation is running; the reference world implements other(x) in Go, so there the comparison is 'nested generated function' against 'native host function'",
			"the state key contains every field the list code reads (through the C09 accessors); Go closures captured by lazy lists and by closure values are opaque, their captured lists are covered because every list the optimizer creates is recorded when it is created",
		},
		QuickBudget: 90e9, ThoroughBudget: 22 * 60e9,
		Run:              run,
		Replay:           replay,
		Extra:            extra,
		CrashIsViolation: true,
		HangSeconds:      120,
	})
}
