package main

import (
	"fmt"
	"strings"
)

// ---------------------------------------------------------------------------------------------
// program templates
//
// Every program has one argument `a`. In a template `$` stands for "the argument used as an int":
// the raw variant replaces it by `a`; the norm variant starts with
//     let i=try a.i catch try a[0] catch a;
// (a non-constant let around two nested try/catch: map argument -> its attribute i, list argument
// -> its first element, anything else -> the argument itself) and replaces `$` by `i`, so that the
// list and the map argument of the pool reach the interesting part of the program instead of
// failing on the first type check.

type progSpec struct {
	ID     string `json:"id"`
	Family string `json:"family"`
	Src    string `json:"src"`
}

type tmpl struct {
	fam  string
	body string
	norm bool // also enumerate the norm variant
}

const normPrefix = "let i=try a.i catch try a[0] catch a; "

// constants that are folded into the generated function (one object shared by all evaluations)
const (
	kMap    = "let c=[1,2,3].map(e->e*2); "                   // lazy, size known; materialises with cap 4
	kAcc    = "let c=[3,1,2].accept(e->e>1); "                // lazy, size unknown
	kFail   = "let c=[0,1,2].map(e->[4,5][e]); "              // lazy, the third element fails
	kNest   = "let c=[[1,2],[3,4,5]].map(l->l.map(e->e+1)); " // lazy list of lazy lists
	kNum    = "let c=numbers(4).map(e->e*e); "                // lazy over a generated source
	kLit    = "let c=[1,2,3]; "                               // literal, exact capacity
	kApp    = "let c=[1,2,3].map(e->e*2).append(7); "         // appended to at compile time
	kTop    = "let c=[1,2,3,4].map(e->e*2).top(3); "          // lazy over lazy
	kMapLit = "let m={x:1,l:[1,2,3].map(e->e*2)}; "           // constant map holding a lazy list
	kPQ     = "let m={p:1,q:2}; "
	// run-time selector: the method is called at run time on the shared constant (a method call on a
	// constant with constant arguments would be folded by the optimizer)
	selFirstSizeLast = "let f=(l,k)->if k=0 then l.first() else if k=1 then l.size() else l.last(); f(c,$)"
	selSumEvalSingle = "let f=(l,k)->if k=0 then l.sum() else if k=1 then l.eval().size() else l.single(); f(c,$)"
	selSelfSizeStr   = "let f=(l,k)->if k=0 then l else if k=1 then l.size() else l.string(); f(c,$)"
	selFirstIdx      = "let f=(l,k)->if k=0 then l.first() else if k=1 then l[0] else l[2]; f(c,$)"
)

func templates() []tmpl {
	var t []tmpl
	add := func(fam string, norm bool, bodies ...string) {
		for _, b := range bodies {
			t = append(t, tmpl{fam: fam, body: b, norm: norm})
		}
	}
	// A: lazy constants accessed with a run-time index
	add("A-const-index", true,
		kMap+"c[$]", kAcc+"c[$]", kFail+"c[$]", kNest+"c[$][1]", kNum+"c[$]", kLit+"c[$]", kApp+"c[$]", kTop+"c[$]")
	add("A-const-index", false,
		"let c=[1,2]+[3].map(e->e*2); c[$]",
		kMap+"switch [2,4,$+5] case c: \"same\" default \"other\"",
		kMap+"c=[2,4,$+5]",
		kMap+"$~c",
		kMap+"c.movingWindow(e->e)[$].append(7)")
	// B: short-cut readers (first/last/single/sum/string do not materialise, size/eval/[i] do) chosen at run time
	for _, k := range []string{kMap, kAcc, kFail} {
		add("B-const-shortcuts", k == kFail, k+selFirstSizeLast, k+selSumEvalSingle, k+selSelfSizeStr, k+selFirstIdx)
	}
	// C: appends to constants (capacity of the parent), in one and in several evaluations
	add("C-const-append", true,
		kMap+"c.append($)", kAcc+"c.append($)", kLit+"c.append($)", kApp+"c.append($)", kNum+"c.append($)")
	add("C-const-append", false,
		kMap+"c.append($).append($+1)",
		kMap+"[c.append($), c.append($+1)]",
		kMap+"c.append($).size()",
		kMap+"c.append($)[3]",
		kMap+"c+[$]",
		kMap+"c.set($,9)",
		kMap+"c.reverse().append($)",
		kMap+"c.append($).map(e->e+1)",
		kMap+"let f=(l,k)->l.append(k).append(k+1); f(c,$)")
	// D: constant maps with put / replace / member access
	add("D-const-map", true,
		kPQ+"m.put(\"r\",$)",
		kPQ+"m.replace(r->{p:r.p+$})",
		kMapLit+"m.l[$]",
		kMapLit+"m.l.append($)")
	add("D-const-map", false,
		kPQ+"m.put(\"r\",$).put(\"s\",$)",
		kPQ+"m.put(\"p\",$)",
		kPQ+"m.replace(r->{p:r.p+$}).replace(r->{q:r.p+$})",
		kMapLit+"m.put(\"k\",$).l.size()",
		kPQ+"m.map((k,v)->v+$)",
		kPQ+"m.accept((k,v)->v>$)",
		kPQ+"m.list().map(e->e.value+$)",
		kPQ+"[m.p,m.q][$]",
		kPQ+"m.put(\"r\",$).list().size()")
	// E: closures capturing the argument, returned unconsumed and called later by the host
	add("E-closure", true,
		"x->x+$",
		kMap+"i->c[i+$]",
		"func f(n) if n<=0 then $ else f(n-1)+1; f")
	add("E-closure", false,
		"[x->x+$, x->x*$]",
		"{f:x->x+$, v:$}",
		"x->y->x+y+$",
		kMap+"x->c.append(x+$)",
		kMap+"let g=i->c[i]; g($)",
		"let g=x->[1,2,3].map(e->e*2)[x]; g($)",
		kMap+"let g=i->c[i+$]; [g(0), g]",
		"let h=x->if x>1 then throw(\"big\") else x; y->h(y+$)")
	// F: lazy results returned to the host, forced later / half / never
	add("F-lazy-result", true,
		"numbers($+2).map(e->e*$)",
		"numbers(4).map(e->[4,5,6][e+$])",
		kMap+"c.map(e->e+$)",
		kMap+"numbers(3).map(i->c[i]+$)")
	add("F-lazy-result", false,
		kMap+"c.top($)",
		kMap+"c.skip($)",
		kMap+"numbers($).map(i->c[i])",
		kFail+"c.map(e->e+$)",
		kMap+"c.accept(e->e>$)",
		kMap+"[c, c.append($)]",
		kMap+"{l:c, n:$}",
		"numbers(6).accept(e->e>$).map(e->e*2)",
		kMap+"c.map(e->e+$).append(1)",
		kMap+"c.combine((x,y)->x+y+$)",
		kMap+"c.iir(e->e+$,(e,l)->e+l)",
		"numbers(5).number((n,e)->n*10+e+$)",
		kMap+"c.cross([1,2],(x,y)->x*y+$)",
		kMap+"c.orderRev(e->e+$)",
		kMap+"c.reduce((x,y)->x+y+$)",
		kMap+"c.mapReduce($,(s,e)->s+e)",
		kMap+"c.indexWhere(e->e>$)",
		kAcc+"c.present(e->e>$)",
		kMap+"c.minMax(e->e*$)",
		kMap+"c.movingWindow(e->e*$)",
		kAcc+"c.compact((x,y)->x=y+$)",
		"let b=[1,2,3,4].binning(0,2,2,e->e,e->1); [b,b,b].top($+1).collectBinning().values",
		"a.map(e->e*2)",
		"a.l.map(e->e+a.i)")
	// G: evaluations failing at every depth of a let / argument nest (stack residue)
	add("G-fail-depth", true,
		"func g(p,q) p*100+q; g($, let x=$*2; if x>1 then throw(\"e\") else x)",
		"func g(p,q,r) p*100+q*10+r; g(1, let x=$+1; x, let y=$*2; if y>3 then throw(\"e\") else y)")
	for d := 1; d <= 4; d++ {
		var b strings.Builder
		b.WriteString("let x1=$+1; ")
		for k := 2; k <= d; k++ {
			fmt.Fprintf(&b, "let x%d=x%d+1; ", k, k-1)
		}
		fmt.Fprintf(&b, "if x%d>%d then throw(\"deep\") else x%d*10", d, d+1, d)
		add("G-fail-depth", false, b.String())
	}
	add("G-fail-depth", false,
		"min($, let x=$*2; if x>1 then throw(\"e\") else x)",
		kMap+"c.append(let x=$*2; if x>1 then throw(\"e\") else x)",
		"[1, let x=$+1; x, let y=$*2; if y>3 then throw(\"e\") else y]",
		"func g(p,q) p+q; g(g($, let x=$; if x>0 then throw(\"in\") else x), let y=$+1; y)",
		"let x=$; let f=y->let z=y+x; if z>5 then throw(\"clo\") else z; [f(0), f(x)]",
		"{k: let x=$*2; if x>1 then throw(\"e\") else x}",
		"func g(p,q) p*100+q; g(let x=$*2; if x>1 then throw(\"e\") else x, $)")
	// H: try/catch around the failing part
	add("H-try-catch", true,
		"try let x=$*2; if x>1 then throw(\"e\") else x catch -1",
		kMap+"try c[$] catch -1")
	add("H-try-catch", false,
		"func g(p,q) p*100+q; g($, try let x=$*2; if x>1 then throw(\"e\") else x catch 7)",
		"func g(p,q) p*100+q; try g($, let x=$*2; if x>1 then throw(\"e\") else x) catch let y=$+1; y",
		kFail+"try c[$] catch e->e",
		"try throw(\"m\"+$) catch e->e",
		kMap+"try c.append(let x=$; if x>0 then throw(\"e\") else x) catch c",
		"let x=try $.i catch try $[0] catch $; x+1",
		"try [1,2,3].map(e->e%$).sum() catch 0")
	// I: recursion
	add("I-recursion", true,
		"func fib(n) if n<2 then n else fib(n-1)+fib(n-2); fib($+5)",
		"func f(n) if n=0 then [] else f(n-1).append(n); f($)")
	add("I-recursion", false,
		"func f(n) if n>40 then throw(\"deep\") else f(n+1)+1; f($)",
		"func f(n,acc) if n=0 then acc else f(n-1, acc.append(n+$)); f(3,[])",
		kMap+"func f(n) if n=0 then c else f(n-1).append(n); f($)",
		"func f(n) if n<=0 then 0 else n+f(n-2); let g=x->f(x+$); g")
	// J: multiUse (consumers on goroutines of their own)
	add("J-multiUse", false,
		kMap+"c.multiUse({s:l->l.sum(), n:l->l.size()+$})",
		"numbers(4).map(e->e+$).multiUse({p:l->l.map(e->e*2), q:l->l.reduce((x,y)->x+y)})")
	// L: one call site reached with receivers of different kinds in different evaluations (a map with a
	// closure stored under a method's name, a plain map, a list, a string)
	add("L-call-site-receivers", false,
		"(if $>0 then {get:k->\"closure:\"+k, a:\"field\"} else {a:\"plain\"}).get(\"a\")",
		"(if $=0 then {get:k->\"closure:\"+k, a:\"field\"} else {a:\"plain\"}).get(\"a\")",
		"let o=if $>0 then {size:k->k+100, a:1} else {a:2,b:3}; try o.size(1) catch try o.size() catch -1",
		"let f=o->o.get(\"a\"); f(if $=1 then {a:\"p\"} else {get:k->k+\"!\",a:\"f\"})",
		"[{a:\"plain\"},{get:k->\"c:\"+k,a:\"f\"},{a:\"again\"}].map(o->o.get(\"a\"))[$]",
		"(if $>0 then [1,2,3] else {a:1}).size()",
		"(if $=1 then \"abc\" else if $=0 then [1,2] else {k:1}).string()",
		"let g=(o,k)->try o.map(e->e+k) catch try o.map((key,e)->e+k) catch -1; g(if $>0 then [1,2] else {a:1}, $)")
	// M: an index access inside a closure that runs while an enclosing list is being indexed, both lists
	// lazy; the inner one is a constant that the first evaluation materialises
	for _, inner := range []string{
		"let c=[10,20,30,40].combine((p,q)->p+q); ",
		"let c=[10,20,30].number((n,x)->x+n); ",
		kMap,
	} {
		add("M-nested-index", false,
			inner+"numbers(3).number((n,x)->c[n]+x+$)[1]",
			inner+"[0,1,2,0].combine((p,q)->c[p]+c[q]+$)[2]",
			inner+"numbers(3).map(x->c[x]+$)[2]",
			inner+"numbers(3).number((n,x)->c[n]+x+$).sum()",
			inner+"numbers(3).number((n,x)->c[n]+x).number((n,x)->c[2-n]+x+$)[0]")
	}
	// K: programs that are entirely constant
	add("K-all-constant", false,
		"[1,2,3].map(e->e*2)",
		"[0,1,2].map(e->[4,5][e])",
		"[1,2,3].map(e->e*2).size()",
		"{a:[1,2,3].map(e->e*2),b:2}",
		"x->x*2",
		"[3,1,2].accept(e->e>1).append(4)",
		kMap+"[c,c.append(1),c.append(2)]",
		"\"abc\"",
		"[[1,2],[3]].map(l->l.map(e->e+1))",
		kMap+"x->c[x]",
		"[1,2,3].map(e->e*2)=[2,4,6]",
		"2~[1,2,3].map(e->e)",
		kMap+"x->c.append(x)")
	return t
}

// programs enumerates the program family in a fixed order: templates in declaration order, the raw
// variant before the norm variant.
func programs() []progSpec {
	var out []progSpec
	n := map[string]int{}
	for _, t := range templates() {
		n[t.fam]++
		id := fmt.Sprintf("%s%02d", t.fam[:1], n[t.fam])
		out = append(out, progSpec{ID: id + "/raw", Family: t.fam, Src: strings.ReplaceAll(t.body, "$", "a")})
		if t.norm && strings.Contains(t.body, "$") {
			out = append(out, progSpec{ID: id + "/norm", Family: t.fam, Src: normPrefix + strings.ReplaceAll(t.body, "$", "i")})
		}
	}
	return out
}

// programs of the configurations with host-provided state: constants registered with AddConstant
// (K: lazily produced host list, KS: host list with spare capacity) and static functions that were
// compiled by GenerateFromString on a second generator (kc(): a folded lazy constant, mk(): a
// closure, idx(i): index into a constant inside the static function, sq(x): a let in its body).
func hostConstPrograms() []progSpec {
	src := []string{
		"K[a]", "K.append(a)", "KS.append(a)", "[K.append(a), KS.append(a+1)]",
		"let f=(l,k)->if k=0 then l.first() else if k=1 then l.size() else l.last(); f(K,a)",
		"K.map(e->e+a)", "i->K[i+a]", "KS[a]", "K.top(a)",
		"let f=(l,k)->if k=0 then l else l.append(k); f(KS,a)",
	}
	var out []progSpec
	for i, s := range src {
		out = append(out, progSpec{ID: fmt.Sprintf("L%02d/raw", i+1), Family: "L-host-constant", Src: s})
	}
	return out
}

func staticPrograms() []progSpec {
	src := []string{
		"kc()[a]", "kc().append(a)", "mk()(a,1)", "idx(a)", "sq(a)",
		"func g(p,q) p*100+q; g(a, sq(a)[1])", "[idx(a), try sq(a) catch -1, idx(0)]", "kc().map(e->e+a)",
		"x->idx(x+a)", "kp()[a]", "kp().append(a)",
	}
	var out []progSpec
	for i, s := range src {
		out = append(out, progSpec{ID: fmt.Sprintf("M%02d/raw", i+1), Family: "M-static-from-string", Src: s})
	}
	return out
}

// programs of the configurations in which a host function evaluates another generated function of
// the same generator while an evaluation is running
func nestedPrograms() []progSpec {
	src := []string{
		"let u=a+1; other(a)+u",
		"func g(p,q) p*100+q; g(a, let x=other(a); x+a)",
		"numbers(3).map(e->let v=e+a; other(e)+v)",
		"let u=a+1; x->other(x)+u+a",
		"let u=a+1; try other(u)+other(a)+u catch -1",
	}
	var out []progSpec
	for i, s := range src {
		out = append(out, progSpec{ID: fmt.Sprintf("N%02d/raw", i+1), Family: "N-nested-evaluation", Src: s})
	}
	return out
}

// ---------------------------------------------------------------------------------------------
// systematic family: every kind of constant list x every kind of run-time consumer.
//
// The hand-written templates above pair a few constants with a few consumers. Two independently
// written breaking changes (seeded S10A: `list ~ list` edits its left operand; S10B: the countdown of
// top() hoisted into the shared lazy list) needed pairs that were not among them, so this family
// enumerates the product. The constant is built without the argument (the optimizer folds it into
// ONE object shared by all evaluations); the consumer runs at run time inside a closure that also
// receives the argument (a method call on a constant with constant arguments would be folded).

var constStages = []struct{ name, expr string }{
	{"literal", "[2,4,6,8]"},
	{"map", "[1,2,3,4].map(e->e*2)"},
	{"accept", "[2,3,4,5,6,8].accept(e->e%2=0)"},
	{"top", "[2,4,6,8,10].top(4)"},
	{"top-lazy", "numbers(10).map(e->e*2+2).top(4)"},
	{"skip", "[0,2,4,6,8].skip(1)"},
	{"top-skip", "numbers(10).map(e->e*2).skip(1).top(4)"},
	{"append", "[2,4,6].append(8)"},
	{"concat", "[2,4]+[3,4].map(e->e*2)"},
	{"reverse", "[8,6,4,2].reverse()"},
	{"order", "[6,2,8,4].order(e->e)"},
	{"combine", "[1,1,3,3,5].combine((x,y)->x+y)"},
	{"combine3", "[0,1,1,2,3,3].combine3((x,y,z)->x+y+z)"},
	{"combineN", "[1,1,3,3,5].combineN(2,l->l[0]+l[1])"},
	{"number", "[2,3,4,5].number((n,e)->n+e)"},
	{"compact", "[2,2,4,6,6,8].compact((x,y)->x=y)"},
	{"cross", "[2,6].cross([0,2],(x,y)->x+y)"},
	{"merge", "[2,6].merge([4,8],(x,y)->x<y)"},
	{"iir", "[2,2,2,2].iir(e->e,(e,l)->e+l)"},
	{"iirCombine", "[2,2,2,2].iirCombine(e->e,(x,xl,yl)->yl+x)"},
	{"movingWindow", "[2,4,6,8].movingWindow(e->e).map(l->l.last())"},
	{"replaceList", "[1,2,3,4].replaceList(l->l.map(e->e*2))"},
	{"eval", "[1,2,3,4].map(e->e*2).eval()"},
	{"mapReduce", "[2,4,6,8].mapReduce([],(s,e)->s.append(e))"},
	{"map-member", "{l:[1,2,3,4].map(e->e*2)}.l"},
	{"nested", "[[2,4,6,8].map(e->e)][0]"},
	{"numbers", "numbers(5).skip(1).map(e->e*2)"},
	// stages over a stage whose producer uses the stack it is handed
	{"concat-of-stack-stages", "[1,2].number((n,e)->n+e+1)+[1,2,3].combine((x,y)->x+y+3)"},
	{"top-of-stack-stage", "[2,3,4,5,9].number((n,e)->n+e).top(4)"},
	{"skip-of-stack-stage", "[9,1,2,3,4].number((n,e)->n+e).skip(1)"},
	{"map-of-stack-stage", "[2,3,4,5].number((n,e)->n+e).map(e->e)"},
}

// consumers: body of (l,k)->…; l is the shared constant, k the argument
var constConsumers = []struct{ name, body string }{
	{"index", "l[k]"},
	{"first", "l.first()+k"},
	{"last", "l.last()+k"},
	{"single", "try l.single() catch k"},
	{"size", "l.size()+k"},
	{"sum", "l.sum()+k"},
	{"string", "l.string()+k"},
	{"self", "if k=0 then l else l.top(k)"},
	{"map", "l.map(e->e+k)"},
	{"accept", "l.accept(e->e>k)"},
	{"reduce", "l.reduce((x,y)->x+y)+k"},
	{"top", "l.top(k)"},
	{"skip", "l.skip(k)"},
	{"append", "l.append(k)"},
	{"append2", "[l.append(k), l.append(k+1)]"},
	{"concat-left", "l+[k]"},
	{"concat-right", "[k]+l"},
	{"equal", "l=[2,4,6,8+k]"},
	{"equal-right", "[2,4,6,8+k]=l"},
	{"in", "(k*2+2)~l"},
	{"all-in-left", "[4,2+k]~l"},
	{"all-in-right", "l~[8,6,4,2,k]"},
	{"all-in-self", "l~l.map(e->e+k-k)"},
	{"indexWhere", "l.indexWhere(e->e>k*2)"},
	{"present", "l.present(e->e>k*4)"},
	{"minMax", "l.minMax(e->e+k)"},
	{"order", "l.orderRev(e->e+k)"},
	{"reverse", "l.reverse().first()+k"},
	{"set", "l.set(k,0)"},
	{"combine", "l.combine((x,y)->x+y+k)"},
	{"cross", "[k].cross(l,(x,y)->x+y)"},
	{"cross-self", "l.cross(l,(x,y)->x*10+y+k).top(5)"},
	{"merge", "l.merge([k],(x,y)->x<y)"},
	{"zip-twice", "[l.sum(),l.size(),l.first()+k]"},
	{"sum-then-index", "l.sum()+l[k]"},
	{"half", "l.map(e->if e>4+k then throw(\"late\") else e)"},
	{"closure", "i->l[i+k]"},
	{"multiUse", "l.multiUse({s:x->x.sum(),n:x->x.size()+k})"},
	{"switch", "switch l case [2,4,6,8+k]: 1 default 0"},
	{"visit", "l.visit(k,(s,e)->s+e)"},
	{"fsm", "l.fsm((s,e)->goto(s.state+1)).last().state+k"},
	// consumers whose behaviour may differ between the lazy and the evaluated state of the shared list:
	// which of the two an evaluation meets depends on the evaluations before it
	{"negative-top-or-size", "if k=1 then l.size() else l.top(k-5).sum()"},
	{"negative-skip-or-index", "if k=1 then l[0] else l.skip(k-5).sum()"},
	{"top-beyond-or-eval", "if k=1 then l.eval().size() else l.top(k+100).sum()"},
	{"string-after-failing-string", "if k=0 then l.map(e->if e>4 then throw(\"late\") else e).string() else l.string()+k"},
	{"string-after-failing-map-string", "if k=0 then {p:l.map(e->if e>4 then throw(\"late\") else e)}.string() else {q:l}.string()+k"},
}

func constProductPrograms() []progSpec {
	var out []progSpec
	for _, s := range constStages {
		for _, c := range constConsumers {
			out = append(out, progSpec{ID: "P/" + s.name + "/" + c.name, Family: "P-const-stage-x-consumer",
				Src: "let c=" + s.expr + "; let f=(l,k)->" + c.body + "; f(c,a)"})
		}
	}
	return out
}
