package main

import (
	"fmt"
	"os"
)

func init() {
	if os.Getenv("VERIF_C10_DUMP") == "product" {
		for _, p := range constProductPrograms() {
			fmt.Println(p.Src)
		}
		os.Exit(0)
	}
}
