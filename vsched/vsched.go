// Package vsched is the controlled cooperative scheduler of /verif's "coop" build and its stateless
// schedule explorer.
//
// The goroutine code of /repo (token.go, value/multiUse.go) and of the iterator dependency is rewritten
// mechanically (tools/vrewrite) so that every goroutine start, channel operation, select, WaitGroup /
// Mutex operation, time.Now / time.After and runtime.NumCPU goes through this package. Every goroutine
// becomes a vthread: a real goroutine that runs only while it holds the scheduler's token. A vthread
// runs uninterrupted from one visible operation to the next and parks BEFORE executing it, so a global
// state is "every vthread parked at a pending operation (or finished)" and a transition executes one
// enabled operation (a rendezvous involves two vthreads). Explore enumerates ALL sequences of
// transitions by depth-first search over choice sequences, pruning on a history-based state key (and
// optionally bounding preemptions), and evaluates the oracles — outcome, data race (vector clocks over
// hooked memory accesses), deadlock, crash of a non-main vthread, goroutines left behind — on every
// terminal state.
package vsched

import (
	"fmt"
	"runtime"
	"sort"
	"strings"
	"sync"
)

type opKind uint8

const (
	opSend opKind = iota
	opRecv
	opSelect
	opClose
	opWait
	opDoneWG
	opStart
	opLock
	opUnlock
	opYield
)

var kindNames = [...]string{"send", "recv", "select", "close", "wg.Wait", "wg.Done", "start", "mutex.Lock", "mutex.Unlock", "yield"}

// SelCase is one case of a select.
type SelCase struct {
	def  bool
	send bool
	ch   *core
	val  any
}

type op struct {
	kind  opKind
	ch    *core
	val   any
	cases []SelCase
	def   bool
	wg    *WG
	mu    *Mutex
	// results
	rval   any
	rok    bool
	chosen int
	panicv any
}

type thread struct {
	idx     int    // dense index in this execution (vector clocks)
	path    string // canonical identity: spawn path "0.2.1"
	ph      uint64
	wake    chan struct{}
	pend    *op
	done    bool
	hist    uint64
	nsp     int
	nobj    int
	exiting bool
	vc      []int32
	started bool
	spawnPC uintptr
}

type item struct {
	vc   []int32
	v    any
	from uint64
	h    uint64
}

type core struct {
	id      uint64
	name    string
	cap     int
	buf     []item
	closed  bool
	closeVC []int32
	timer   bool
	dur     int64
}

// WG replaces sync.WaitGroup.
type WG struct {
	id   uint64
	n    int
	vc   []int32
	init bool
}

// Mutex replaces sync.Mutex.
type Mutex struct {
	id     uint64
	locked bool
	vc     []int32
	init   bool
	// identity of the last unlock (who, with which history): what a critical section can read from
	// memory the mutex protects depends on who held it before, so it is part of the locker's history
	lastPh, lastHist uint64
}

type transition struct {
	a, b   *thread
	ac, bc int
	kind   uint8
}

const (
	trSolo uint8 = iota
	trDefault
	trSendClosed
	trBufSend
	trBufRecv
	trRecvClosed
	trRdv
	trTimer
)

// Config of one exploration.
type Config struct {
	// PreemptBound limits preemptions per execution (-1 = unbounded).
	PreemptBound int
	// MaxExecs / MaxStates stop the exploration (0 = no cap); Stats.Capped tells.
	MaxExecs, MaxStates int
	// NoPrune disables state-key pruning.
	NoPrune bool
	// Stop is polled between executions.
	Stop func() bool
}

// Sched is the scheduler of one execution.
type Sched struct {
	threads    []*thread
	cur        *thread
	last       *thread
	runq       []*thread
	prefix     []int
	step       int
	nEnabled   []int
	preempt    [][]bool // per choice point, per alternative: is it a preemption
	chosen     []int
	aborting   bool
	finished   chan struct{}
	visited    map[uint64]struct{}
	noPrune    bool
	pruned     bool
	deadlock   bool
	crash      []string
	mainDone   bool
	locs       map[locKey]*locState
	atoms      map[any]*atomState
	races      []string
	raceKeys   map[string]bool
	leaks      []string
	clock      int64
	trans      int
	afterMain  int
	objs       []*core
	live       sync.WaitGroup
	diverged   bool
	newStates  int
	trace      []string
	wantTrace  bool
	wantStacks bool
}

// S is the scheduler of the running execution (nil outside Explore/RunOnce).
var S *Sched

func mix(h uint64, parts ...uint64) uint64 {
	for _, p := range parts {
		h ^= p + 0x9e3779b97f4a7c15 + (h << 6) + (h >> 2)
		h *= 0xff51afd7ed558ccd
		h ^= h >> 33
	}
	return h
}

func hashStr(s string) uint64 {
	h := uint64(14695981039346656037)
	for i := 0; i < len(s); i++ {
		h ^= uint64(s[i])
		h *= 1099511628211
	}
	return h
}

func (s *Sched) newThread(parent *thread, fn func()) *thread {
	path := "0"
	if parent != nil {
		parent.nsp++
		path = fmt.Sprintf("%s.%d", parent.path, parent.nsp)
	}
	t := &thread{idx: len(s.threads), path: path, ph: hashStr(path), wake: make(chan struct{}, 1)}
	if parent != nil {
		t.vc = append([]int32{}, parent.vc...)
		parent.tick()
	}
	for len(t.vc) <= t.idx {
		t.vc = append(t.vc, 0)
	}
	t.vc[t.idx] = 1
	s.threads = append(s.threads, t)
	s.live.Add(1)
	go func() {
		defer s.live.Done()
		<-t.wake
		if s.aborting {
			return
		}
		t.started = true
		defer func() {
			if s.aborting {
				return
			}
			if r := recover(); r != nil {
				if t.idx == 0 {
					s.crash = append(s.crash, fmt.Sprintf("main vthread panicked: %v", r))
				} else {
					s.crash = append(s.crash, fmt.Sprintf("panic reached the top of goroutine %s (a real process dies here): %v\n%s", t.path, r, shortStack(4)))
				}
			}
			t.done = true
			t.pend = nil
			if t.idx == 0 {
				s.mainDone = true
			}
			s.next(t)
		}()
		fn()
	}()
	return t
}

func (t *thread) tick() {
	for len(t.vc) <= t.idx {
		t.vc = append(t.vc, 0)
	}
	t.vc[t.idx]++
}

func vcGet(vc []int32, i int) int32 {
	if i < len(vc) {
		return vc[i]
	}
	return 0
}

func join(a, b []int32) []int32 {
	n := len(a)
	if len(b) > n {
		n = len(b)
	}
	r := make([]int32, n)
	copy(r, a)
	for i, v := range b {
		if v > r[i] {
			r[i] = v
		}
	}
	return r
}

func cp(a []int32) []int32 { return append([]int32{}, a...) }

// park: the current vthread announces its next visible operation and yields the token.
func (s *Sched) park(t *thread, o *op) {
	if s.aborting {
		if t.exiting {
			return
		}
		t.exiting = true
		runtime.Goexit()
	}
	t.pend = o
	s.next(t)
	<-t.wake
	if s.aborting {
		t.exiting = true
		runtime.Goexit()
	}
	s.cur = t
	if o.panicv != nil {
		panic(o.panicv)
	}
}

// next hands the token on: to a vthread made runnable by the last transition, or — when all vthreads
// are parked — to the participants of the next chosen transition.
func (s *Sched) next(self *thread) {
	s.last = self
	if len(s.runq) > 0 {
		n := s.runq[0]
		s.runq = s.runq[1:]
		s.cur = n
		n.wake <- struct{}{}
		return
	}
	if len(s.crash) > 0 {
		// a real process is dead now: stop this execution
		s.finish()
		return
	}
	ts := s.enabledTransitions()
	if len(ts) == 0 {
		for _, t := range s.threads {
			if !t.done {
				if !s.mainDone {
					s.deadlock = true
				}
				s.leaks = append(s.leaks, fmt.Sprintf("goroutine %s (started at %s) parked forever in %s", t.path, t.spawnSite(), t.pendDesc()))
			}
		}
		s.finish()
		return
	}
	var c int
	if s.step < len(s.prefix) {
		c = s.prefix[s.step]
		if c >= len(ts) {
			s.diverged = true
			s.finish()
			return
		}
	} else {
		if !s.noPrune {
			key := s.stateKey()
			if _, seen := s.visited[key]; seen {
				s.pruned = true
				s.finish()
				return
			}
			s.visited[key] = struct{}{}
			s.newStates++
		}
		c = 0
	}
	// record the choice point
	pre := make([]bool, len(ts))
	lastEnabled := false
	for _, tr := range ts {
		if tr.a == s.last || tr.b == s.last {
			lastEnabled = true
		}
	}
	for i, tr := range ts {
		pre[i] = lastEnabled && tr.a != s.last && tr.b != s.last
	}
	s.nEnabled = append(s.nEnabled, len(ts))
	s.preempt = append(s.preempt, pre)
	s.chosen = append(s.chosen, c)
	s.step++
	s.trans++
	if s.mainDone {
		s.afterMain++
	}
	s.apply(ts[c])
	n := s.runq[0]
	s.runq = s.runq[1:]
	s.cur = n
	n.wake <- struct{}{}
}

func (s *Sched) finish() {
	s.aborting = true
	close(s.finished)
}

func (t *thread) pendDesc() string {
	if t.pend == nil {
		return "?"
	}
	o := t.pend
	d := kindNames[o.kind]
	if o.ch != nil {
		d += " on chan " + o.ch.name
	}
	if o.kind == opSelect {
		var cs []string
		for _, c := range o.cases {
			switch {
			case c.def:
				cs = append(cs, "default")
			case c.ch == nil:
				cs = append(cs, "nil-chan")
			case c.send:
				cs = append(cs, "send "+c.ch.name)
			default:
				cs = append(cs, "recv "+c.ch.name)
			}
		}
		d += "{" + strings.Join(cs, ", ") + "}"
	}
	return d
}

func (o *op) sig() uint64 {
	h := uint64(o.kind) + 1
	if o.ch != nil {
		h = mix(h, o.ch.id)
	}
	for _, c := range o.cases {
		id := uint64(0)
		if c.ch != nil {
			id = c.ch.id
		}
		x := uint64(0)
		if c.send {
			x = 1
		}
		if c.def {
			x = 2
		}
		h = mix(h, id, x)
	}
	if o.wg != nil {
		h = mix(h, o.wg.id, uint64(o.wg.n))
	}
	if o.mu != nil {
		h = mix(h, o.mu.id)
	}
	return h
}

func (s *Sched) stateKey() uint64 {
	parts := make([]uint64, 0, len(s.threads)+len(s.objs))
	for _, t := range s.threads {
		st := uint64(0)
		if !t.done && t.pend != nil {
			st = t.pend.sig()
		}
		parts = append(parts, mix(t.ph, t.hist, st))
	}
	for _, c := range s.objs {
		if len(c.buf) == 0 {
			continue
		}
		h := c.id
		for _, it := range c.buf {
			h = mix(h, it.from, it.h)
		}
		parts = append(parts, h)
	}
	sort.Slice(parts, func(i, j int) bool { return parts[i] < parts[j] })
	return mix(uint64(len(parts)), parts...)
}

type half struct {
	t    *thread
	ci   int
	send bool
	ch   *core
	val  any
}

func halves(t *thread, buf []half) []half {
	o := t.pend
	switch o.kind {
	case opSend:
		return append(buf, half{t, -1, true, o.ch, o.val})
	case opRecv:
		return append(buf, half{t, -1, false, o.ch, nil})
	case opSelect:
		for i, c := range o.cases {
			if !c.def {
				buf = append(buf, half{t, i, c.send, c.ch, c.val})
			}
		}
	}
	return buf
}

func (s *Sched) enabledTransitions() []transition {
	var ts, timerTs []transition
	var parked []*thread
	for _, t := range s.threads {
		if !t.done && t.pend != nil {
			parked = append(parked, t)
		}
	}
	// canonical order: the vthread that ran last first, then by spawn path
	sort.Slice(parked, func(i, j int) bool {
		if (parked[i] == s.last) != (parked[j] == s.last) {
			return parked[i] == s.last
		}
		return parked[i].path < parked[j].path
	})
	var hb, hb2 []half
	for _, t := range parked {
		o := t.pend
		switch o.kind {
		case opStart, opClose, opDoneWG, opUnlock, opYield:
			ts = append(ts, transition{a: t, ac: -1, kind: trSolo})
		case opWait:
			if o.wg.n <= 0 {
				ts = append(ts, transition{a: t, ac: -1, kind: trSolo})
			}
		case opLock:
			if !o.mu.locked {
				ts = append(ts, transition{a: t, ac: -1, kind: trSolo})
			}
		case opSend, opRecv, opSelect:
			anyReady := false
			hb = halves(t, hb[:0])
			for _, h := range hb {
				if h.ch == nil {
					continue // nil channel: never ready
				}
				if h.send {
					switch {
					case h.ch.closed:
						ts = append(ts, transition{a: t, ac: h.ci, kind: trSendClosed})
						anyReady = true
					case len(h.ch.buf) < h.ch.cap:
						ts = append(ts, transition{a: t, ac: h.ci, kind: trBufSend})
						anyReady = true
					case h.ch.cap > 0:
						// a FULL buffered channel: the sender waits until a receiver has taken an item out of
						// the buffer. (No hand-over to a parked receiver: it would overtake the buffered items.)
					default:
						for _, r := range parked {
							if r == t {
								continue
							}
							hb2 = halves(r, hb2[:0])
							for _, rh := range hb2 {
								if !rh.send && rh.ch == h.ch {
									ts = append(ts, transition{a: t, ac: h.ci, b: r, bc: rh.ci, kind: trRdv})
									anyReady = true
								}
							}
						}
					}
				} else if h.ch.timer {
					timerTs = append(timerTs, transition{a: t, ac: h.ci, kind: trTimer})
				} else {
					switch {
					case len(h.ch.buf) > 0:
						ts = append(ts, transition{a: t, ac: h.ci, kind: trBufRecv})
						anyReady = true
					case h.ch.closed:
						ts = append(ts, transition{a: t, ac: h.ci, kind: trRecvClosed})
						anyReady = true
					default:
						// a rendezvous is listed at the sender; note whether one exists
						for _, r := range parked {
							if r == t {
								continue
							}
							hb2 = halves(r, hb2[:0])
							for _, rh := range hb2 {
								if rh.send && rh.ch == h.ch && len(h.ch.buf) >= h.ch.cap {
									anyReady = true
								}
							}
						}
					}
				}
			}
			if o.kind == opSelect && o.def && !anyReady {
				ts = append(ts, transition{a: t, ac: -2, kind: trDefault})
			}
		}
	}
	if len(ts) == 0 {
		// discrete-event time: a timer fires only when nothing else can happen; the earliest first
		if len(timerTs) > 1 {
			sort.SliceStable(timerTs, func(i, j int) bool {
				return timerTs[i].a.pend.caseChan(timerTs[i].ac).dur < timerTs[j].a.pend.caseChan(timerTs[j].ac).dur
			})
			timerTs = timerTs[:1]
		}
		return timerTs
	}
	return ts
}

func (o *op) caseChan(ci int) *core {
	if o.kind == opSelect && ci >= 0 {
		return o.cases[ci].ch
	}
	return o.ch
}

func (s *Sched) apply(tr transition) {
	a := tr.a
	ao := a.pend
	pick := func(o *op, ci int) (ch *core, val any) {
		if o.kind == opSelect {
			o.chosen = ci
			if ci >= 0 {
				return o.cases[ci].ch, o.cases[ci].val
			}
			return nil, nil
		}
		return o.ch, o.val
	}
	ci := uint64(tr.ac + 3)
	switch tr.kind {
	case trSolo:
		switch ao.kind {
		case opClose:
			if ao.ch == nil {
				ao.panicv = "close of nil channel"
			} else {
				if ao.ch.closed {
					ao.panicv = "close of closed channel"
				}
				ao.ch.closed = true
				ao.ch.closeVC = cp(a.vc)
				a.tick()
				a.hist = mix(a.hist, 1, ao.ch.id)
			}
		case opDoneWG:
			ao.wg.n--
			if ao.wg.n < 0 {
				ao.panicv = "sync: negative WaitGroup counter"
			}
			ao.wg.vc = join(ao.wg.vc, a.vc)
			a.tick()
			a.hist = mix(a.hist, 2, ao.wg.id)
		case opWait:
			a.vc = join(a.vc, ao.wg.vc)
			a.hist = mix(a.hist, 3, ao.wg.id)
		case opStart:
			a.hist = mix(a.hist, 4)
		case opLock:
			ao.mu.locked = true
			a.vc = join(a.vc, ao.mu.vc)
			a.hist = mix(a.hist, 5, ao.mu.id, ao.mu.lastPh, ao.mu.lastHist)
		case opUnlock:
			if !ao.mu.locked {
				ao.panicv = "sync: unlock of unlocked mutex"
			}
			ao.mu.locked = false
			ao.mu.vc = cp(a.vc)
			a.tick()
			ao.mu.lastPh, ao.mu.lastHist = a.ph, a.hist
			a.hist = mix(a.hist, 6, ao.mu.id)
		case opYield:
			a.hist = mix(a.hist, 7)
		}
		a.pend = nil
		s.runq = append(s.runq, a)
	case trDefault:
		ao.chosen = -1
		a.hist = mix(a.hist, 8)
		a.pend = nil
		s.runq = append(s.runq, a)
	case trSendClosed:
		ch, _ := pick(ao, tr.ac)
		ao.panicv = "send on closed channel"
		a.hist = mix(a.hist, 9, ch.id)
		a.pend = nil
		s.runq = append(s.runq, a)
	case trBufSend:
		ch, v := pick(ao, tr.ac)
		ch.buf = append(ch.buf, item{cp(a.vc), v, a.ph, a.hist})
		a.tick()
		a.hist = mix(a.hist, 10, ch.id, ci)
		a.pend = nil
		s.runq = append(s.runq, a)
	case trBufRecv:
		ch, _ := pick(ao, tr.ac)
		it := ch.buf[0]
		ch.buf = ch.buf[1:]
		ao.rval, ao.rok = it.v, true
		a.vc = join(a.vc, it.vc)
		a.hist = mix(a.hist, 11, ch.id, ci, it.from, it.h)
		a.pend = nil
		s.runq = append(s.runq, a)
	case trRecvClosed:
		ch, _ := pick(ao, tr.ac)
		ao.rval, ao.rok = nil, false
		a.vc = join(a.vc, ch.closeVC)
		a.hist = mix(a.hist, 12, ch.id, ci)
		a.pend = nil
		s.runq = append(s.runq, a)
	case trTimer:
		ch, _ := pick(ao, tr.ac)
		s.clock += ch.dur
		ao.rval, ao.rok = nil, true
		a.hist = mix(a.hist, 13, ch.id, ci)
		a.pend = nil
		s.runq = append(s.runq, a)
	case trRdv:
		b := tr.b
		bo := b.pend
		ch, v := pick(ao, tr.ac)
		pick(bo, tr.bc)
		bo.rval, bo.rok = v, true
		j := join(a.vc, b.vc)
		a.vc, b.vc = cp(j), cp(j)
		a.tick()
		b.tick()
		ah, bh := a.hist, b.hist
		a.hist = mix(ah, 14, ch.id, ci, b.ph, bh)
		b.hist = mix(bh, 15, ch.id, uint64(tr.bc+3), a.ph, ah)
		a.pend, b.pend = nil, nil
		s.runq = append(s.runq, a, b)
	}
	if s.wantTrace {
		d := a.path + ": " + a.pendDescOp(ao)
		if tr.b != nil {
			d += "  <->  " + tr.b.path
		}
		s.trace = append(s.trace, d)
	}
}

func (t *thread) pendDescOp(o *op) string {
	save := t.pend
	t.pend = o
	d := t.pendDesc()
	t.pend = save
	return d
}

// ---------------------------------------------------------------------------------------------
// API used by rewritten code

// Chan replaces chan T.
type Chan[T any] struct{ c *core }

func (s *Sched) newObjID(kind string) (uint64, string) {
	t := s.cur
	t.nobj++
	name := fmt.Sprintf("%s#%s%d", t.path, kind, t.nobj)
	return hashStr(name), name
}

func MakeChan[T any](n int) *Chan[T] {
	id, name := S.newObjID("c")
	c := &core{id: id, name: name, cap: n}
	S.objs = append(S.objs, c)
	return &Chan[T]{c: c}
}

func (c *Chan[T]) core() *core {
	if c == nil {
		return nil
	}
	return c.c
}

func (c *Chan[T]) Send(v T) {
	S.park(S.cur, &op{kind: opSend, ch: c.core(), val: v})
}

func (c *Chan[T]) Recv2() (T, bool) {
	o := &op{kind: opRecv, ch: c.core()}
	S.park(S.cur, o)
	var zero T
	if !o.rok || o.rval == nil {
		return zero, o.rok
	}
	return o.rval.(T), true
}

func (c *Chan[T]) Recv() T { v, _ := c.Recv2(); return v }

func (c *Chan[T]) Close() {
	if S.aborting {
		return
	}
	S.park(S.cur, &op{kind: opClose, ch: c.core()})
}

// Len / Cap for completeness.
func (c *Chan[T]) Len() int { return len(c.c.buf) }

func SendCase[T any](c *Chan[T], v T) SelCase { return SelCase{send: true, ch: c.core(), val: v} }
func RecvCase[T any](c *Chan[T]) SelCase      { return SelCase{send: false, ch: c.core()} }
func DefaultCase() SelCase                    { return SelCase{def: true} }

// NewTimerChan creates the channel returned by time.After(d) (d in microseconds of virtual time).
func NewTimerChan[T any](d int64) *Chan[T] {
	id, name := S.newObjID("timer")
	return &Chan[T]{c: &core{id: id, name: name, timer: true, dur: d}}
}

func Select(cases ...SelCase) int {
	o := &op{kind: opSelect}
	for _, c := range cases {
		if c.def {
			o.def = true
		}
	}
	o.cases = cases
	S.park(S.cur, o)
	if o.chosen == -1 {
		for i, c := range cases {
			if c.def {
				return i
			}
		}
	}
	return o.chosen
}

// Go replaces the go statement.
func Go(fn func()) {
	t := S.newThread(S.cur, fn)
	t.pend = &op{kind: opStart}
	var pcs [1]uintptr
	if runtime.Callers(2, pcs[:]) == 1 {
		t.spawnPC = pcs[0]
	}
}

func (t *thread) spawnSite() string {
	if t.spawnPC == 0 {
		return "harness"
	}
	s := symbolizeAll([]uintptr{t.spawnPC})
	if s == "" {
		return "harness"
	}
	return s
}

func symbolizeAll(pcs []uintptr) string {
	fr := runtime.CallersFrames(pcs)
	var b []string
	for {
		f, more := fr.Next()
		fn := f.Function
		if i := strings.Index(fn, "["); i > 0 {
			fn = fn[:i]
		}
		if i := strings.LastIndex(fn, "/"); i >= 0 {
			fn = fn[i+1:]
		}
		b = append(b, fmt.Sprintf("%s:%d", fn, f.Line))
		if !more {
			break
		}
	}
	return strings.Join(b, " < ")
}

// Yield is an explicit scheduling point (used by harnesses).
func Yield() {
	if S == nil || S.aborting {
		return
	}
	S.park(S.cur, &op{kind: opYield})
}

func (w *WG) ensure() {
	if !w.init {
		w.init = true
		w.id, _ = S.newObjID("wg")
	}
}

func (w *WG) Add(n int) {
	w.ensure()
	w.n += n
	// Add is not a scheduling point: in the code under test it always precedes the spawn it counts
	S.cur.hist = mix(S.cur.hist, 20, w.id, uint64(n))
}

func (w *WG) Done() {
	if S.aborting {
		return
	}
	w.ensure()
	S.park(S.cur, &op{kind: opDoneWG, wg: w})
}

func (w *WG) Wait() {
	if S.aborting {
		return
	}
	w.ensure()
	S.park(S.cur, &op{kind: opWait, wg: w})
}

func (m *Mutex) ensure() {
	if !m.init {
		m.init = true
		m.id, _ = S.newObjID("mu")
	}
}

func (m *Mutex) Lock() {
	if S.aborting {
		return
	}
	m.ensure()
	S.park(S.cur, &op{kind: opLock, mu: m})
}

func (m *Mutex) Unlock() {
	if S.aborting {
		return
	}
	m.ensure()
	S.park(S.cur, &op{kind: opUnlock, mu: m})
}

// ---------------------------------------------------------------------------------------------
// virtual time and worker count

// Workers is what runtime.NumCPU returns in the coop build.
var Workers = 2

// ClockNow returns the virtual clock in microseconds.
func ClockNow() int64 {
	if S == nil {
		return 0
	}
	return S.clock
}

// ClockAdvance is called by host functions with a virtual cost.
func ClockAdvance(us int64) {
	if S != nil {
		S.clock += us
	}
}

// Active reports whether code runs under the scheduler.
func Active() bool { return S != nil && !S.aborting }

// CurPath returns the spawn path of the running vthread ("0" = main).
func CurPath() string {
	if S == nil || S.cur == nil {
		return ""
	}
	return S.cur.path
}

// ---------------------------------------------------------------------------------------------
// happens-before race detection on hooked locations

type locKey struct {
	obj  any
	slot int
}

type access struct {
	tid   int
	clock int32
	path  string
	ph    uint64 // canonical identity of the accessing vthread
	hist  uint64 // its history when it made the access
	pcs   [12]uintptr
	npc   int
}

type locState struct {
	w     *access
	reads []access
}

func (a *access) stack() string { return symbolize(a.pcs[:a.npc]) }

func symbolize(pcs []uintptr) string {
	if len(pcs) == 0 {
		return ""
	}
	fr := runtime.CallersFrames(pcs)
	var b []string
	for {
		f, more := fr.Next()
		fn := f.Function
		if i := strings.Index(fn, "["); i > 0 {
			fn = fn[:i]
		}
		if (strings.Contains(fn, "parser2") || strings.Contains(fn, "iterator")) && !strings.Contains(fn, "stackStorage") {
			if i := strings.LastIndex(fn, "/"); i >= 0 {
				fn = fn[i+1:]
			}
			b = append(b, fmt.Sprintf("%s:%d", fn, f.Line))
		}
		if !more || len(b) >= 8 {
			break
		}
	}
	return strings.Join(b, " < ")
}

func shortStack(skip int) string {
	var pcs [32]uintptr
	n := runtime.Callers(skip, pcs[:])
	return symbolize(pcs[:n])
}

// AccessSlot records a read or write of slot `slot` of object obj by the running vthread and reports
// a data race if a conflicting access by another vthread is not ordered before it by happens-before.
func AccessSlot(obj any, slot int, write bool) { accessSlot(obj, slot, write, 5) }

func accessSlot(obj any, slot int, write bool, skip int) {
	s := S
	if s == nil || s.aborting || s.cur == nil {
		return
	}
	t := s.cur
	if s.locs == nil {
		s.locs = map[locKey]*locState{}
	}
	k := locKey{obj, slot}
	ls := s.locs[k]
	if ls == nil {
		ls = &locState{}
		s.locs[k] = ls
	}
	me := access{tid: t.idx, clock: vcGet(t.vc, t.idx), path: t.path, ph: t.ph, hist: t.hist}
	// call stacks are only recorded when an execution is re-run to describe a race it showed
	if s.wantStacks {
		me.npc = runtime.Callers(skip, me.pcs[:])
	}
	report := func(prev access, kind string) {
		st := me.stack()
		pst := prev.stack()
		key := kind + "|" + st + "|" + pst
		if s.raceKeys == nil {
			s.raceKeys = map[string]bool{}
		}
		if !s.raceKeys[key] && len(s.races) < 16 {
			s.raceKeys[key] = true
			s.races = append(s.races, fmt.Sprintf("%s on %T slot %d: goroutine %s {%s}  unordered with earlier access by goroutine %s {%s}", kind, obj, slot, t.path, st, prev.path, pst))
		}
	}
	if ls.w != nil && ls.w.tid != t.idx && ls.w.clock > vcGet(t.vc, ls.w.tid) {
		if write {
			report(*ls.w, "write/write race")
		} else {
			report(*ls.w, "write/read race")
		}
	}
	if write {
		for _, r := range ls.reads {
			if r.tid != t.idx && r.clock > vcGet(t.vc, r.tid) {
				report(r, "read/write race")
			}
		}
		ls.w = &me
		ls.reads = ls.reads[:0]
	} else {
		for i, r := range ls.reads {
			if r.tid == t.idx {
				ls.reads[i] = me
				return
			}
		}
		ls.reads = append(ls.reads, me)
	}
}

// AccessSet is the hook of stackStorage.set(n, v): slot write, plus a write of the slice header when
// the slot is appended.
func AccessSet(obj any, n int, grows bool) {
	if grows {
		AccessSlot(obj, -1, true)
	} else {
		AccessSlot(obj, -1, false)
	}
	AccessSlot(obj, n, true)
}

// AccessGet is the hook of stackStorage.get(n).
func AccessGet(obj any, n int) {
	AccessSlot(obj, -1, false)
	AccessSlot(obj, n, false)
}

// AccessRange is the hook of Stack.ToSlice: reads slots [from, from+n).
func AccessRange(obj any, from, n int) {
	AccessSlot(obj, -1, false)
	for i := 0; i < n; i++ {
		AccessSlot(obj, from+i, false)
	}
}

// atomState is the scheduler's view of one atomic variable (sync/atomic in the coop build): the
// identity of the store it currently holds and the vector clock released by the stores so far.
type atomState struct {
	vc       []int32
	ph, hist uint64
}

func (s *Sched) atom(addr any) *atomState {
	if s.atoms == nil {
		s.atoms = map[any]*atomState{}
	}
	a := s.atoms[addr]
	if a == nil {
		a = &atomState{}
		s.atoms[addr] = a
	}
	return a
}

// AtomicRead is the load half of an atomic operation: a scheduling point; the load synchronises with
// the store it observes (acquire), and the identity of that store enters the reader's history, so that
// history-key pruning keeps apart executions in which the load saw different stores.
func AtomicRead(addr any) {
	s := S
	if s == nil || s.aborting || s.cur == nil {
		return
	}
	Yield()
	if s.aborting {
		return
	}
	t := s.cur
	a := s.atom(addr)
	t.vc = join(t.vc, a.vc)
	t.hist = mix(t.hist, 32, a.ph, a.hist)
}

// AtomicWrite is the store half of an atomic operation (release). point: the store is a scheduling
// point of its own (plain Store); false for the store half of a read-modify-write.
func AtomicWrite(addr any, point bool) {
	s := S
	if s == nil || s.aborting || s.cur == nil {
		return
	}
	if point {
		Yield()
		if s.aborting {
			return
		}
	}
	t := s.cur
	a := s.atom(addr)
	a.vc = join(a.vc, t.vc)
	a.ph, a.hist = t.ph, t.hist
	t.tick()
	t.hist = mix(t.hist, 33)
}

// YieldOnAccess makes every hooked field access (rule R4) a scheduling point, so that all sequentially
// consistent interleavings at field granularity are explored (used by C11).
var YieldOnAccess bool

// Access records an access to a struct field (identified by its address). What a vthread reads from
// shared memory is part of its history — as the identity of the write it observed: (writer, writer's
// history at the write) — so that state-key pruning stays sound when vthreads communicate through
// hooked fields instead of channels.
func Access(addr any, write bool) {
	s := S
	if s == nil || s.aborting || s.cur == nil {
		return
	}
	if YieldOnAccess {
		Yield()
		if s.aborting {
			return
		}
	}
	t := s.cur
	if write {
		t.hist = mix(t.hist, 31)
	} else if ls := s.locs[locKey{addr, 0}]; ls != nil && ls.w != nil {
		t.hist = mix(t.hist, 30, ls.w.ph, ls.w.hist)
	} else {
		t.hist = mix(t.hist, 30, 0, 0)
	}
	accessSlot(addr, 0, write, 3)
}
