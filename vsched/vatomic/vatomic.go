// Package vatomic replaces sync/atomic in the coop build: sequentially consistent; each operation is a
// scheduling point, synchronises like the real one (a load acquires what the observed store released)
// and enters what it observed into the history of the vthread (see vsched.AtomicRead).
package vatomic

import "verif/vsched"

type Int32 struct{ v int32 }
type Int64 struct{ v int64 }
type Bool struct{ v bool }

func (a *Int32) Load() int32   { vsched.AtomicRead(a); return a.v }
func (a *Int32) Store(v int32) { vsched.AtomicWrite(a, true); a.v = v }
func (a *Int32) Add(d int32) int32 {
	vsched.AtomicRead(a)
	vsched.AtomicWrite(a, false)
	a.v += d
	return a.v
}
func (a *Int32) CompareAndSwap(o, n int32) bool {
	vsched.AtomicRead(a)
	if a.v == o {
		vsched.AtomicWrite(a, false)
		a.v = n
		return true
	}
	return false
}
func (a *Int64) Load() int64   { vsched.AtomicRead(a); return a.v }
func (a *Int64) Store(v int64) { vsched.AtomicWrite(a, true); a.v = v }
func (a *Int64) Add(d int64) int64 {
	vsched.AtomicRead(a)
	vsched.AtomicWrite(a, false)
	a.v += d
	return a.v
}
func (a *Bool) Load() bool   { vsched.AtomicRead(a); return a.v }
func (a *Bool) Store(v bool) { vsched.AtomicWrite(a, true); a.v = v }
func (a *Bool) CompareAndSwap(o, n bool) bool {
	vsched.AtomicRead(a)
	if a.v == o {
		vsched.AtomicWrite(a, false)
		a.v = n
		return true
	}
	return false
}
func (a *Bool) Swap(n bool) bool {
	vsched.AtomicRead(a)
	vsched.AtomicWrite(a, false)
	o := a.v
	a.v = n
	return o
}

func AddInt32(p *int32, d int32) int32 {
	vsched.AtomicRead(p)
	vsched.AtomicWrite(p, false)
	*p += d
	return *p
}
func AddInt64(p *int64, d int64) int64 {
	vsched.AtomicRead(p)
	vsched.AtomicWrite(p, false)
	*p += d
	return *p
}
func LoadInt32(p *int32) int32     { vsched.AtomicRead(p); return *p }
func LoadInt64(p *int64) int64     { vsched.AtomicRead(p); return *p }
func StoreInt32(p *int32, v int32) { vsched.AtomicWrite(p, true); *p = v }
func StoreInt64(p *int64, v int64) { vsched.AtomicWrite(p, true); *p = v }
