// Package vtime replaces package time in the coop build: a virtual clock (microseconds) advanced only
// by host functions with a declared cost and by timers that fire when nothing else can happen.
package vtime

import "verif/vsched"

type Duration int64

const (
	Nanosecond  Duration = 1
	Microsecond          = 1000 * Nanosecond
	Millisecond          = 1000 * Microsecond
	Second               = 1000 * Millisecond
	Minute               = 60 * Second
	Hour                 = 60 * Minute
)

func (d Duration) Microseconds() int64 { return int64(d) / 1000 }
func (d Duration) Milliseconds() int64 { return int64(d) / 1000000 }
func (d Duration) Nanoseconds() int64  { return int64(d) }
func (d Duration) Seconds() float64    { return float64(d) / 1e9 }

// Time is a point of virtual time in nanoseconds.
type Time struct{ ns int64 }

func Now() Time                    { return Time{vsched.ClockNow() * 1000} }
func (t Time) Sub(u Time) Duration { return Duration(t.ns - u.ns) }
func (t Time) Add(d Duration) Time { return Time{t.ns + int64(d)} }
func (t Time) After(u Time) bool   { return t.ns > u.ns }
func (t Time) Before(u Time) bool  { return t.ns < u.ns }
func (t Time) IsZero() bool        { return t.ns == 0 }
func Since(t Time) Duration        { return Now().Sub(t) }

// After returns a channel that becomes ready when no other transition is enabled (discrete-event
// semantics), advancing the virtual clock by d.
func After(d Duration) *vsched.Chan[Time] { return vsched.NewTimerChan[Time](int64(d) / 1000) }

// Sleep advances the virtual clock.
func Sleep(d Duration) { vsched.ClockAdvance(int64(d) / 1000) }
