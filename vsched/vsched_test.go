package vsched

import (
	"fmt"
	"sort"
	"strings"
	"testing"
)

// Conformance of the shim with the Go specification: for each small program the SET of outcomes over
// all schedules (and whether a deadlock / leak / panic is reachable) must be what the spec says.

func outcomes(t *testing.T, body func() string) (Stats, string) {
	st := Explore(Config{PreemptBound: -1}, body)
	var o []string
	for k := range st.Outcomes {
		o = append(o, k)
	}
	sort.Strings(o)
	return st, strings.Join(o, ",")
}

func TestUnbufferedRendezvous(t *testing.T) {
	st, o := outcomes(t, func() string {
		c := MakeChan[int](0)
		Go(func() { c.Send(1) })
		return fmt.Sprint(c.Recv())
	})
	if o != "1" || st.Deadlocks != 0 || st.LeakExecs != 0 {
		t.Fatal(o, st.Deadlocks, st.LeakExecs)
	}
}

func TestSendWithoutReceiverLeaks(t *testing.T) {
	st, _ := outcomes(t, func() string {
		c := MakeChan[int](0)
		Go(func() { c.Send(1) })
		return "x"
	})
	if st.LeakExecs == 0 {
		t.Fatal("a sender on an unbuffered channel without receiver must be reported as left behind")
	}
}

func TestBufferedDoesNotBlock(t *testing.T) {
	st, o := outcomes(t, func() string {
		c := MakeChan[int](1)
		c.Send(7)
		return fmt.Sprint(c.Recv())
	})
	if o != "7" || st.Deadlocks != 0 {
		t.Fatal(o)
	}
}

func TestBufferedFullBlocks(t *testing.T) {
	st, _ := outcomes(t, func() string {
		c := MakeChan[int](1)
		c.Send(7)
		c.Send(8)
		return "unreachable"
	})
	if st.Deadlocks == 0 {
		t.Fatal("second send on a full buffered channel without receiver must deadlock")
	}
}

func TestNilChannelBlocksForever(t *testing.T) {
	st, _ := outcomes(t, func() string {
		var c *Chan[int]
		c.Recv()
		return "unreachable"
	})
	if st.Deadlocks == 0 {
		t.Fatal("receive on nil channel must block forever")
	}
}

func TestRecvOnClosed(t *testing.T) {
	_, o := outcomes(t, func() string {
		c := MakeChan[int](1)
		c.Send(3)
		c.Close()
		a, ok1 := c.Recv2()
		b, ok2 := c.Recv2()
		return fmt.Sprint(a, ok1, b, ok2)
	})
	if o != "3 true 0 false" {
		t.Fatal(o)
	}
}

func TestSendOnClosedPanics(t *testing.T) {
	_, o := outcomes(t, func() (res string) {
		defer func() {
			if r := recover(); r != nil {
				res = fmt.Sprint(r)
			}
		}()
		c := MakeChan[int](0)
		c.Close()
		c.Send(1)
		return "no panic"
	})
	if o != "send on closed channel" {
		t.Fatal(o)
	}
}

func TestCloseOfClosedPanics(t *testing.T) {
	_, o := outcomes(t, func() (res string) {
		defer func() {
			if r := recover(); r != nil {
				res = fmt.Sprint(r)
			}
		}()
		c := MakeChan[int](0)
		c.Close()
		c.Close()
		return "no panic"
	})
	if o != "close of closed channel" {
		t.Fatal(o)
	}
}

func TestSelectAllReadyCasesExplored(t *testing.T) {
	_, o := outcomes(t, func() string {
		a, b := MakeChan[int](1), MakeChan[int](1)
		a.Send(1)
		b.Send(2)
		switch Select(RecvCase(a), RecvCase(b)) {
		case 0:
			return "a"
		case 1:
			return "b"
		}
		return "?"
	})
	if o != "a,b" {
		t.Fatal("select with two ready cases must explore both, got ", o)
	}
}

func TestSelectDefaultOnlyWhenNothingReady(t *testing.T) {
	_, o := outcomes(t, func() string {
		a := MakeChan[int](1)
		r := ""
		if Select(RecvCase(a), DefaultCase()) == 1 {
			r += "default;"
		}
		a.Send(1)
		if Select(RecvCase(a), DefaultCase()) == 0 {
			r += "recv"
		}
		return r
	})
	if o != "default;recv" {
		t.Fatal(o)
	}
}

func TestSelectSendAndRecvRace(t *testing.T) {
	// two senders, one receiver: both orders reachable
	_, o := outcomes(t, func() string {
		c := MakeChan[int](0)
		Go(func() { c.Send(1) })
		Go(func() { c.Send(2) })
		x := c.Recv()
		y := c.Recv()
		return fmt.Sprint(x, y)
	})
	if o != "1 2,2 1" {
		t.Fatal(o)
	}
}

func TestWaitGroup(t *testing.T) {
	st, o := outcomes(t, func() string {
		var wg WG
		x := 0
		for i := 0; i < 2; i++ {
			wg.Add(1)
			Go(func() { x++; wg.Done() })
		}
		wg.Wait()
		return fmt.Sprint(x)
	})
	if o != "2" || st.Deadlocks != 0 {
		t.Fatal(o)
	}
}

func TestMutexExcludes(t *testing.T) {
	st, o := outcomes(t, func() string {
		var mu Mutex
		done := MakeChan[int](2)
		in, bad := 0, false
		for i := 0; i < 2; i++ {
			Go(func() {
				mu.Lock()
				in++
				if in > 1 {
					bad = true
				}
				Yield()
				in--
				mu.Unlock()
				done.Send(1)
			})
		}
		done.Recv()
		done.Recv()
		return fmt.Sprint(bad)
	})
	if o != "false" || st.Deadlocks != 0 {
		t.Fatal(o)
	}
}

func TestTimerFiresOnlyWhenStuck(t *testing.T) {
	_, o := outcomes(t, func() string {
		c := MakeChan[int](0)
		tm := NewTimerChan[int](5000000)
		Go(func() { c.Send(1) })
		if Select(RecvCase(c), RecvCase(tm)) == 0 {
			return "data"
		}
		return "timeout"
	})
	if o != "data" {
		t.Fatal("a timer must not fire while another transition is enabled: ", o)
	}
	_, o = outcomes(t, func() string {
		c := MakeChan[int](0)
		tm := NewTimerChan[int](5000000)
		if Select(RecvCase(c), RecvCase(tm)) == 0 {
			return "data"
		}
		return "timeout"
	})
	if o != "timeout" {
		t.Fatal(o)
	}
}

func TestRaceDetectorHappensBefore(t *testing.T) {
	type cell struct{ v int }
	// unsynchronised: race
	st, _ := outcomes(t, func() string {
		x := &cell{}
		done := MakeChan[int](1)
		Go(func() { AccessSlot(x, 0, true); x.v = 1; done.Send(1) })
		AccessSlot(x, 0, true)
		x.v = 2
		done.Recv()
		return ""
	})
	if st.RaceExecs == 0 {
		t.Fatal("two unordered writes must be reported")
	}
	// ordered by a channel: no race
	st, _ = outcomes(t, func() string {
		x := &cell{}
		c := MakeChan[int](0)
		Go(func() { AccessSlot(x, 0, true); x.v = 1; c.Send(1) })
		c.Recv()
		AccessSlot(x, 0, true)
		x.v = 2
		return ""
	})
	if st.RaceExecs != 0 {
		t.Fatal("accesses ordered by a rendezvous must not be reported")
	}
	// ordered by close -> recv
	st, _ = outcomes(t, func() string {
		x := &cell{}
		c := MakeChan[int](0)
		Go(func() { AccessSlot(x, 0, true); c.Close() })
		c.Recv2()
		AccessSlot(x, 0, false)
		return ""
	})
	if st.RaceExecs != 0 {
		t.Fatal("close happens before the receive that observes it")
	}
	// ordered by WaitGroup
	st, _ = outcomes(t, func() string {
		x := &cell{}
		var wg WG
		wg.Add(1)
		Go(func() { AccessSlot(x, 0, true); wg.Done() })
		wg.Wait()
		AccessSlot(x, 0, true)
		return ""
	})
	if st.RaceExecs != 0 {
		t.Fatal("Done happens before Wait returns")
	}
	// ordered by Mutex in one order only: still no race (lock provides the edge whichever comes first)
	st, _ = outcomes(t, func() string {
		x := &cell{}
		var mu Mutex
		done := MakeChan[int](1)
		Go(func() { mu.Lock(); AccessSlot(x, 0, true); mu.Unlock(); done.Send(1) })
		mu.Lock()
		AccessSlot(x, 0, true)
		mu.Unlock()
		done.Recv()
		return ""
	})
	if st.RaceExecs != 0 {
		t.Fatal("critical sections of one mutex are ordered")
	}
}

func TestPreemptionBoundZeroIsOneScheduleFamily(t *testing.T) {
	full := Explore(Config{PreemptBound: -1}, func() string {
		c := MakeChan[int](0)
		Go(func() { c.Send(1) })
		Go(func() { c.Send(2) })
		return fmt.Sprint(c.Recv(), c.Recv())
	})
	b0 := Explore(Config{PreemptBound: 0}, func() string {
		c := MakeChan[int](0)
		Go(func() { c.Send(1) })
		Go(func() { c.Send(2) })
		return fmt.Sprint(c.Recv(), c.Recv())
	})
	if b0.Execs > full.Execs {
		t.Fatal("bounded exploration must not exceed the unbounded one")
	}
}

func TestReplayIsDeterministic(t *testing.T) {
	body := func() string {
		c := MakeChan[int](0)
		Go(func() { c.Send(1) })
		Go(func() { c.Send(2) })
		return fmt.Sprint(c.Recv(), c.Recv())
	}
	st := Explore(Config{PreemptBound: -1}, body)
	for _, term := range st.Terminals {
		r1 := Replay(term.Choices, body)
		r2 := Replay(term.Choices, body)
		if r1.Obs != term.Obs || r2.Obs != term.Obs || len(r1.Trace) != len(r2.Trace) {
			t.Fatal("replay diverged", r1.Obs, r2.Obs, term.Obs)
		}
	}
}

// check-then-act on an atomic flag: both vthreads can read false before either stores true. The
// exploration must reach that outcome although every single operation is atomic — history-key pruning
// must keep apart the executions in which the load observed different stores.
func TestAtomicCheckThenActIsExplored(t *testing.T) {
	_, o := outcomes(t, func() string {
		flag := new(int) // identity only
		val := false
		wins := 0
		done := MakeChan[int](2)
		for i := 0; i < 2; i++ {
			Go(func() {
				AtomicRead(flag)
				seen := val
				if !seen {
					AtomicWrite(flag, true)
					val = true
					wins++
				}
				done.Send(1)
			})
		}
		done.Recv()
		done.Recv()
		return fmt.Sprint(wins)
	})
	if o != "1,2" {
		t.Fatal("both outcomes of a check-then-act on an atomic must be reachable, got ", o)
	}
}

// a compare-and-swap has exactly one winner under every schedule
func TestAtomicCASHasOneWinner(t *testing.T) {
	_, o := outcomes(t, func() string {
		flag := new(int)
		val := false
		wins := 0
		done := MakeChan[int](2)
		for i := 0; i < 2; i++ {
			Go(func() {
				AtomicRead(flag)
				if !val {
					AtomicWrite(flag, false)
					val = true
					wins++
				}
				done.Send(1)
			})
		}
		done.Recv()
		done.Recv()
		return fmt.Sprint(wins)
	})
	if o != "1" {
		t.Fatal(o)
	}
}

// what a critical section reads depends on who held the mutex before: both orders must be explored to
// their terminal states (the locker's history contains the identity of the previous unlock)
func TestMutexOrderIsObservable(t *testing.T) {
	_, o := outcomes(t, func() string {
		var mu Mutex
		x := 1
		done := MakeChan[int](2)
		for i := 1; i <= 2; i++ {
			i := i
			Go(func() {
				mu.Lock()
				x = x*3 + i
				mu.Unlock()
				done.Send(1)
			})
		}
		done.Recv()
		done.Recv()
		return fmt.Sprint(x)
	})
	if o != "14,16" {
		t.Fatal(o)
	}
}

// a buffered channel is a FIFO also when it is full and a receiver is already waiting: the item of a
// blocked sender must not overtake the buffered ones
func TestFullBufferedChannelKeepsOrder(t *testing.T) {
	st, o := outcomes(t, func() string {
		c := MakeChan[int](2)
		Go(func() {
			for i := 1; i <= 5; i++ {
				c.Send(i)
			}
			c.Close()
		})
		s := ""
		for {
			v, ok := c.Recv2()
			if !ok {
				break
			}
			s += fmt.Sprint(v)
		}
		return s
	})
	if o != "12345" || st.Deadlocks != 0 {
		t.Fatal("items of a buffered channel must arrive in the order they were sent under every schedule, got ", o, st.Deadlocks)
	}
}

// the same through select with a send case (and a second case that is never ready)
func TestFullBufferedChannelKeepsOrderInSelect(t *testing.T) {
	_, o := outcomes(t, func() string {
		c := MakeChan[int](2)
		stop := MakeChan[int](0)
		Go(func() {
			for i := 1; i <= 5; i++ {
				Select(SendCase(c, i), RecvCase(stop))
			}
			c.Close()
		})
		s := ""
		for {
			v, ok := c.Recv2()
			if !ok {
				break
			}
			s += fmt.Sprint(v)
		}
		return s
	})
	if o != "12345" {
		t.Fatal(o)
	}
}
