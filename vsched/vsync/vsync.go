// Package vsync replaces package sync in the coop build.
package vsync

import "verif/vsched"

type WaitGroup = vsched.WG
type Mutex = vsched.Mutex

// RWMutex is modelled as a plain mutex (readers exclude each other: a sound over-approximation of
// blocking behaviour for deadlock detection, an under-approximation of reader concurrency).
type RWMutex struct{ vsched.Mutex }

func (m *RWMutex) RLock()   { m.Lock() }
func (m *RWMutex) RUnlock() { m.Unlock() }

// Once runs f once; the first caller runs it without yielding.
type Once struct{ done bool }

func (o *Once) Do(f func()) {
	if !o.done {
		o.done = true
		f()
	}
}
