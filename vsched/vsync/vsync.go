// Package vsync replaces package sync in the coop build.
package vsync

import "verif/vsched"

type WaitGroup = vsched.WG
type Mutex = vsched.Mutex

// RWMutex is modelled as a plain mutex (readers exclude each other: a sound over-approximation of
// blocking behaviour for deadlock detection, an under-approximation of reader concurrency).
type RWMutex struct{ vsched.Mutex }

func (m *RWMutex) RLock()   { m.Lock() }
func (m *RWMutex) RUnlock() { m.Unlock() }

// Once runs f once; the first caller runs it without yielding.
type Once struct{ done bool }

func (o *Once) Do(f func()) {
	if !o.done {
		o.done = true
		f()
	}
}

// Pool replaces sync.Pool: a LIFO free list (one of the behaviours the real pool may show; it never
// drops an item, which is the case that makes a premature Put visible). Get and Put are scheduling
// points; what Get returns is the identity of the Put it took the item from, which the atomic hook
// records in the history of the vthread.
type Pool struct {
	New   func() any
	items []any
	owner *vsched.Sched // the execution the items belong to: a package-level pool starts empty in every execution
}

func (p *Pool) enter() {
	if p.owner != vsched.S {
		p.owner, p.items = vsched.S, nil
	}
	vsched.AtomicRead(p)
	vsched.AtomicWrite(p, false)
}

func (p *Pool) Get() any {
	p.enter()
	if n := len(p.items); n > 0 {
		x := p.items[n-1]
		p.items = p.items[:n-1]
		return x
	}
	if p.New != nil {
		return p.New()
	}
	return nil
}

func (p *Pool) Put(x any) {
	p.enter()
	p.items = append(p.items, x)
}
