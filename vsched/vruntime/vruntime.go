// Package vruntime replaces package runtime in the coop build.
package vruntime

import "verif/vsched"

// NumCPU returns the worker count chosen by the harness.
func NumCPU() int { return vsched.Workers }

func GOMAXPROCS(n int) int { return vsched.Workers }

func Gosched() { vsched.Yield() }
