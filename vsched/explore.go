package vsched

import (
	"fmt"
	"sort"
	"strings"
)

// Result of one execution.
type Result struct {
	Choices   []int
	NEnabled  []int
	preempt   [][]bool
	Pruned    bool
	Diverged  bool
	Deadlock  bool
	MainDone  bool
	Crashes   []string
	Obs       string
	Leaks     []string // vthreads parked forever at the terminal state
	Races     []string
	AfterMain int // transitions executed after the main vthread returned
	Trans     int
	Threads   int
	NewStates int
	Trace     []string
}

// RunOnce executes body as the main vthread, replaying prefix and then taking choice 0.
func RunOnce(prefix []int, visited map[uint64]struct{}, noPrune bool, trace bool, body func() string) Result {
	s := &Sched{prefix: prefix, finished: make(chan struct{}), visited: visited, noPrune: noPrune, wantTrace: trace, wantStacks: trace}
	S = s
	var obs string
	main := s.newThread(nil, func() { obs = body() })
	s.cur = main
	main.wake <- struct{}{}
	<-s.finished
	// unwind parked vthreads
	for _, t := range s.threads {
		select {
		case t.wake <- struct{}{}:
		default:
		}
	}
	s.live.Wait()
	S = nil
	return Result{Choices: s.chosen, NEnabled: s.nEnabled, preempt: s.preempt, Pruned: s.pruned, Diverged: s.diverged, Deadlock: s.deadlock,
		MainDone: s.mainDone, Crashes: s.crash, Obs: obs, Leaks: s.leaks, Races: s.races, AfterMain: s.afterMain, Trans: s.trans,
		Threads: len(s.threads), NewStates: s.newStates, Trace: s.trace}
}

// Terminal is one distinct terminal observation of an exploration.
type Terminal struct {
	Obs       string
	Deadlock  bool
	Leaks     string
	Crash     string
	Race      string
	Choices   []int
	Count     int
	AfterMain int
}

// Stats of one exploration.
type Stats struct {
	Execs, States, Transitions               int
	Terminals                                map[string]*Terminal
	Outcomes                                 map[string]int
	Deadlocks, Crashes, RaceExecs, LeakExecs int
	MaxAfterMain                             int
	MaxThreads                               int
	Capped                                   bool
	Bound                                    int
	Diverged                                 int
}

func (st *Stats) first(pred func(*Terminal) bool) *Terminal {
	var keys []string
	for k := range st.Terminals {
		keys = append(keys, k)
	}
	sort.Strings(keys)
	var best *Terminal
	for _, k := range keys {
		t := st.Terminals[k]
		if pred(t) && (best == nil || len(t.Choices) < len(best.Choices)) {
			best = t
		}
	}
	return best
}

func (st *Stats) FirstDeadlock() *Terminal {
	return st.first(func(t *Terminal) bool { return t.Deadlock })
}
func (st *Stats) FirstCrash() *Terminal {
	return st.first(func(t *Terminal) bool { return t.Crash != "" })
}
func (st *Stats) FirstRace() *Terminal {
	return st.first(func(t *Terminal) bool { return t.Race != "" })
}
func (st *Stats) FirstLeak() *Terminal {
	return st.first(func(t *Terminal) bool { return t.Leaks != "" && !t.Deadlock })
}

// Explore enumerates every schedule of body (depth-first over choice sequences, state-key pruning,
// optional preemption bound).
func Explore(cfg Config, body func() string) Stats {
	visited := map[uint64]struct{}{}
	st := Stats{Terminals: map[string]*Terminal{}, Outcomes: map[string]int{}, Bound: cfg.PreemptBound}
	type frame struct {
		prefix []int
		cost   int
	}
	stack := []frame{{nil, 0}}
	raceDesc := map[string][]string{}
	for len(stack) > 0 {
		if (cfg.MaxExecs > 0 && st.Execs >= cfg.MaxExecs) || (cfg.MaxStates > 0 && len(visited) >= cfg.MaxStates) || (cfg.Stop != nil && cfg.Stop()) {
			st.Capped = true
			break
		}
		f := stack[len(stack)-1]
		stack = stack[:len(stack)-1]
		r := RunOnce(f.prefix, visited, cfg.NoPrune, false, body)
		st.Execs++
		st.Transitions += r.Trans
		if r.Threads > st.MaxThreads {
			st.MaxThreads = r.Threads
		}
		if r.Diverged {
			st.Diverged++
			continue
		}
		if len(r.Races) > 0 {
			// describe the race with call stacks: re-run this schedule once per distinct raw race
			raw := strings.Join(r.Races, "\n")
			if d, ok := raceDesc[raw]; ok {
				r.Races = d
			} else {
				rr := RunOnce(r.Choices, map[uint64]struct{}{}, true, true, body)
				if len(rr.Races) > 0 {
					raceDesc[raw] = rr.Races
					r.Races = rr.Races
				}
			}
		}
		if !r.Pruned {
			st.Outcomes[r.Obs]++
			key := fmt.Sprintf("%s|dl=%v|leak=%s|crash=%s|race=%s", r.Obs, r.Deadlock, strings.Join(r.Leaks, ";"), firstOf(r.Crashes), strings.Join(r.Races, ";"))
			t := st.Terminals[key]
			if t == nil {
				t = &Terminal{Obs: r.Obs, Deadlock: r.Deadlock, Leaks: strings.Join(r.Leaks, "; "), Crash: firstOf(r.Crashes), Race: strings.Join(r.Races, "\n"), Choices: r.Choices, AfterMain: r.AfterMain}
				st.Terminals[key] = t
			}
			t.Count++
			if r.Deadlock {
				st.Deadlocks++
			}
			if len(r.Crashes) > 0 {
				st.Crashes++
			}
			if len(r.Leaks) > 0 && !r.Deadlock {
				st.LeakExecs++
			}
			if r.AfterMain > st.MaxAfterMain {
				st.MaxAfterMain = r.AfterMain
			}
		}
		if len(r.Races) > 0 {
			st.RaceExecs++
			if r.Pruned {
				// races seen on a pruned execution are still races
				key := "pruned|race=" + strings.Join(r.Races, ";")
				if st.Terminals[key] == nil {
					st.Terminals[key] = &Terminal{Obs: "(pruned)", Race: strings.Join(r.Races, "\n"), Choices: r.Choices}
				}
				st.Terminals[key].Count++
			}
		}
		// alternatives at every choice point beyond the prefix; preemption cost accumulates along the path
		cost := f.cost
		for i := len(f.prefix); i < len(r.NEnabled); i++ {
			for alt := r.NEnabled[i] - 1; alt >= 1; alt-- {
				c := cost
				if r.preempt[i][alt] {
					c++
				}
				if cfg.PreemptBound >= 0 && c > cfg.PreemptBound {
					continue
				}
				np := append(append(make([]int, 0, i+1), r.Choices[:i]...), alt)
				stack = append(stack, frame{np, c})
			}
			if r.preempt[i][r.Choices[i]] {
				cost++
			}
		}
	}
	st.States = len(visited)
	return st
}

func firstOf(s []string) string {
	if len(s) == 0 {
		return ""
	}
	return s[0]
}

// Replay runs one recorded schedule (no pruning) with a trace.
func Replay(choices []int, body func() string) Result {
	return RunOnce(choices, map[uint64]struct{}{}, true, true, body)
}

// RunDefault runs body once under the scheduler with the default schedule (choice 0 everywhere, no
// pruning, nothing recorded for exploration): for set-up code of a harness that must call rewritten
// library code (every Parse starts a tokenizer vthread).
func RunDefault(body func() string) Result {
	return RunOnce(nil, map[uint64]struct{}{}, true, false, body)
}

// RaceLines returns every distinct race description seen in any execution of the exploration, each
// with the schedule of an execution that shows it.
func (st *Stats) RaceLines() map[string][]int {
	out := map[string][]int{}
	var keys []string
	for k := range st.Terminals {
		keys = append(keys, k)
	}
	sort.Strings(keys)
	for _, k := range keys {
		t := st.Terminals[k]
		if t.Race == "" {
			continue
		}
		for _, line := range strings.Split(t.Race, "\n") {
			if line == "" {
				continue
			}
			if old, ok := out[line]; !ok || len(t.Choices) < len(old) {
				out[line] = t.Choices
			}
		}
	}
	return out
}
