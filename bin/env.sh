# sourced by every script under /verif/bin: offline Go environment that works with /repo (go 1.25.0).
# GOSUMDB=off breaks the offline switch to the cached go1.25.0 toolchain, so it is unset here.
export GOFLAGS=-mod=mod
export GOPROXY=off
export GOTOOLCHAIN=auto
unset GOSUMDB
export VERIF_ROOT="$(cd "$(dirname "${BASH_SOURCE[0]}")/.." && pwd)"
