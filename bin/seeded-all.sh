#!/usr/bin/env bash
# usage: bin/seeded-all.sh [ids…]   — runs every seeded change (default: all) against the checks named
# in its meta.json through the build overlay (/repo stays untouched) and prints one line per (change, check).
cd "$(dirname "${BASH_SOURCE[0]}")/.."
ids="$*"; [ -n "$ids" ] || ids="$(ls seeded | grep '^S' | sort)"
for id in $ids; do SEEDED_VIA=overlay bin/seeded-run.sh "$id"; done
