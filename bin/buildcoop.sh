#!/usr/bin/env bash
# usage: bin/buildcoop.sh <cmd-dir-name> <output> [extra go build flags…]
# Regenerates the coop instrumentation from the current sources and builds ./cmd/<name> against it.
# Serialised with a lock: several checks may be (re)built at the same time.
set -eu
here="$(cd "$(dirname "${BASH_SOURCE[0]}")" && pwd)"
. "$here/env.sh"
cd "$VERIF_ROOT"
mkdir -p build
name="$1"; outp="$2"; shift 2
exec 9> build/coop.lock
flock 9
set +e
bin/mkcoop.sh; rc=$?
set -e
if [ $rc -ne 0 ]; then
  [ $rc -eq 3 ] && echo "INSTRUMENTATION-MISMATCH (cannot decide on this tree)"
  exit 2
fi
go build -tags "verif coop" -modfile build/coop.mod -overlay build/overlay-coop.json "$@" -o "$outp" "./cmd/$name"
