#!/usr/bin/env bash
# usage: bin/seeded-confirm.sh <out-dir-with-patch.diff> <seeded-id> <demo-file> <dest-dir-in-repo> <go test args…>
# Confirms in a scratch worktree of /repo: suite passes with the change, demo fails with it, demo passes without.
set -u
. "$(dirname "${BASH_SOURCE[0]}")/env.sh"
src="$1"; id="$2"; demo="$3"; dest="$4"; shift 4
wt="/tmp/confirm-$id"
git -C /repo worktree remove --force "$wt" 2>/dev/null; rm -rf "$wt"
git -C /repo worktree add -q --detach "$wt" HEAD || exit 2
cd "$wt"
res=""
mkdir -p "$dest"; cp "$src/$demo" "$dest/" || exit 2
if go test -vet=off -count=1 "$@" >/tmp/confirm-$id.without.log 2>&1; then res="$res demo-without=PASS"; else res="$res demo-without=FAIL(!)"; fi
rm -f "$dest/$(basename "$demo")"
git apply "$src/patch.diff" || { echo "patch does not apply"; exit 2; }
if go build ./... && go test -vet=off -count=1 ./... >/tmp/confirm-$id.suite.log 2>&1; then res="$res suite-with=PASS"; else res="$res suite-with=FAIL(!)"; fi
cp "$src/$demo" "$dest/"
if go test -vet=off -count=1 "$@" >/tmp/confirm-$id.with.log 2>&1; then res="$res demo-with=PASS(!)"; else res="$res demo-with=FAIL"; fi
cd /; git -C /repo worktree remove --force "$wt"; rm -rf "$wt"
echo "$id:$res"
