#!/usr/bin/env bash
# usage: bin/seeded-replay.sh <seeded-id> <check>  — runs the check on the seeded change (overlay), then replays its first
# replay file on the changed tree (must still fail) and on the unchanged tree (must not).
cd "$(dirname "${BASH_SOURCE[0]}")/.."
id="$1"; c="$2"; lc="$(echo "$c" | tr 'A-Z' 'a-z')"
wt="/tmp/srp-wt-$$"; ov="/tmp/srp-ov-$$"
git -C /repo worktree add -q --detach "$wt" HEAD || exit 2
git -C "$wt" apply "$PWD/seeded/$id/patch.diff" || exit 2
mkdir -p "$ov"; (cd "$wt" && git status --porcelain | awk '{print $2}' | while read -r f; do mkdir -p "$ov/$(dirname "$f")"; cp "$f" "$ov/$f"; done)
git -C /repo worktree remove --force "$wt"
export VERIF_EXTRA_OVERLAY="$ov"
bin/verif check "$c" --tier quick >/dev/null 2>&1
f="$(ls replays/$c/*.json 2>/dev/null | head -1)"
[ -n "$f" ] || { echo "$id $c: no replay file"; rm -rf "$ov"; exit 1; }
cp "$f" /tmp/srp-$$.json
mkdir -p /tmp/srp-$$/$c; cp "$f" /tmp/srp-$$/$c/1.json
a="$(bin/verif replay /tmp/srp-$$/$c/1.json 2>&1 | grep -i 'still failing' | head -1)"
unset VERIF_EXTRA_OVERLAY
b="$(bin/verif replay /tmp/srp-$$/$c/1.json 2>&1 | grep -i 'still failing' | head -1)"
echo "$id $c: changed tree:$a | unchanged tree:$b"
rm -rf "$ov" /tmp/srp-$$ /tmp/srp-$$.json
