#!/usr/bin/env bash
# usage: bin/seeded-run.sh <seeded-id> [check ids…]   (default: the checks named in meta.json "checks")
# Applies /verif/seeded/<id>/patch.diff to /repo, runs the quick tier of the given checks, reverts.
# Prints one line per check: CAUGHT (exit 1 with VIOLATION), MISSED (exit 0), UNDECIDED (exit 2).
set -u
here="$(cd "$(dirname "${BASH_SOURCE[0]}")" && pwd)"
cd "$here/.."
id="$1"; shift
dir="seeded/$id"
[ -f "$dir/patch.diff" ] || { echo "no $dir/patch.diff"; exit 2; }
checks="$*"
[ -n "$checks" ] || checks="$(python3 -c "import json;print(' '.join(json.load(open('$dir/meta.json')).get('checks',[])))")"
if [ "${SEEDED_VIA:-repo}" = overlay ]; then
  # leaves /repo untouched (for use while background runs build from /repo): the patched files are
  # taken from a scratch worktree and injected with the build overlay
  wt="/tmp/seeded-wt-$id-$$"; ov="/tmp/seeded-ov-$id-$$"
  git -C /repo worktree add -q --detach "$wt" HEAD || exit 2
  git -C "$wt" apply "$PWD/$dir/patch.diff" || { echo "patch does not apply"; git -C /repo worktree remove --force "$wt"; exit 2; }
  mkdir -p "$ov"
  (cd "$wt" && git status --porcelain | awk '{print $2}' | while read -r f; do mkdir -p "$ov/$(dirname "$f")"; cp "$f" "$ov/$f"; done)
  git -C /repo worktree remove --force "$wt"
  export VERIF_EXTRA_OVERLAY="$ov"
  trap 'rm -rf "$ov"' EXIT
else
if ! git -C /repo diff --quiet; then echo "/repo has uncommitted changes"; exit 2; fi
git -C /repo apply "$PWD/$dir/patch.diff" || { echo "patch does not apply"; exit 2; }
trap 'git -C /repo checkout -- . ; git -C /repo clean -fdq' EXIT
fi
for c in $checks; do
  out="$(bin/verif check "$c" --tier quick 2>&1)"; rc=$?
  n="$(echo "$out" | grep -c '^VIOLATION')"
  case $rc in
    1) echo "$id $c CAUGHT violations=$n :: $(echo "$out" | grep -A1 '^VIOLATION' | grep 'what:' | head -1 | cut -c1-160)" ;;
    0) echo "$id $c MISSED" ;;
    *) echo "$id $c UNDECIDED rc=$rc :: $(echo "$out" | tail -2 | tr '\n' ' ' | cut -c1-200)" ;;
  esac
done
