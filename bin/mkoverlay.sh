#!/usr/bin/env bash
# writes build/overlay-plain.json: accessor files added to /repo packages (nothing is replaced)
set -eu
here="$(cd "$(dirname "${BASH_SOURCE[0]}")" && pwd)"
. "$here/env.sh"
mkdir -p "$VERIF_ROOT/build"
{
  echo '{"Replace":{'
  first=1
  for f in $(cd "$VERIF_ROOT/overlay" && find . -name '*.go' | sort); do
    f="${f#./}"
    [ $first = 1 ] || echo ','
    first=0
    printf '"/repo/%s":"%s/overlay/%s"' "$f" "$VERIF_ROOT" "$f"
  done
  echo '}}'
} > "$VERIF_ROOT/build/overlay-plain.json"
