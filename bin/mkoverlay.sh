#!/usr/bin/env bash
# usage: mkoverlay.sh <out.json>
# Writes a `go build -overlay` file that ADDS the accessor files under /verif/overlay to /repo packages
# (nothing of /repo is replaced). If VERIF_EXTRA_OVERLAY names a directory, every file below it
# replaces the file with the same relative path in /repo — used only to try candidate fixes or
# deliberate property-breaking changes without touching /repo.
set -eu
here="$(cd "$(dirname "${BASH_SOURCE[0]}")" && pwd)"
. "$here/env.sh"
out="$1"
mkdir -p "$(dirname "$out")"
{
  echo '{"Replace":{'
  first=1
  for f in $(cd "$VERIF_ROOT/overlay" && find . -name '*.go' | sort); do
    f="${f#./}"
    # an accessor file names the checks that need it: a tree whose internals were renamed then only
    # stops those checks from building, not all of them
    if [ -n "${VERIF_CHECK:-}" ] && ! grep -q "^// verif:checks .*\b${VERIF_CHECK}\b" "$VERIF_ROOT/overlay/$f"; then continue; fi
    [ $first = 1 ] || echo ','
    first=0
    printf '"/repo/%s":"%s/overlay/%s"' "$f" "$VERIF_ROOT" "$f"
  done
  if [ -n "${VERIF_EXTRA_OVERLAY:-}" ]; then
    for f in $(cd "$VERIF_EXTRA_OVERLAY" && find . -type f -name '*.go' | sort); do
      f="${f#./}"
      [ $first = 1 ] || echo ','
      first=0
      printf '"/repo/%s":"%s/%s"' "$f" "$VERIF_EXTRA_OVERLAY" "$f"
    done
  fi
  echo '}}'
} > "$out.$$.tmp"
mv -f "$out.$$.tmp" "$out"
