#!/usr/bin/env bash
# usage: bin/seeded-save.sh <id> <src-dir> <property> "<checks>" "<what it needs to manifest>"
set -eu
cd "$(dirname "${BASH_SOURCE[0]}")/.."
id="$1"; src="$2"
mkdir -p "seeded/$id"
cp "$src/patch.diff" "seeded/$id/"
cp "$src"/*_test.go "seeded/$id/" 2>/dev/null || true
cp "$src/notes.md" "seeded/$id/notes.md" 2>/dev/null || true
python3 - "$@" <<'PY'
import json,sys
id,src,prop,checks,needs=sys.argv[1:6]
json.dump({"id":id,"breaks_property":prop,"checks":checks.split(),"needs_to_manifest":needs,
 "confirmed":"bin/seeded-confirm.sh in a scratch worktree: repository suite passes with the change; the demonstration fails with it and passes without it",
 "source":"independent adversary sub-agent given only the property text and a scratch worktree"},open('seeded/%s/meta.json'%id,'w'),indent=1)
PY
