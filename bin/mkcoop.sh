#!/usr/bin/env bash
# Generates the instrumentation of the controlled-scheduler ("coop") build from the CURRENT sources:
#   build/coop/repo/<pkg>/*.go   rewritten files of /repo (injected with -overlay build/overlay-coop.json)
#   build/coop/iterator/         rewritten copy of the pinned iterator module (selected with -modfile build/coop.mod)
# Exit 3 + INSTRUMENTATION-MISMATCH if the rewriting rules do not cover the sources.
set -eu
here="$(cd "$(dirname "${BASH_SOURCE[0]}")" && pwd)"
. "$here/env.sh"
cd "$VERIF_ROOT"
mkdir -p build/bin
# the rewriter is its own module (it needs golang.org/x/tools/go/ast/astutil from the module cache)
( cd tools/vrewrite && go build -o "$VERIF_ROOT/build/bin/vrewrite" . )
out="build/coop.$$"
rm -rf "$out"; mkdir -p "$out/repo/funcGen" "$out/repo/value" "$out/repo/root"
REPO="${VERIF_REPO_SRC:-/repo}"
srcdir() { # relative package dir -> directory holding its current sources (extra overlay wins)
  echo "$REPO/$1"
}
# when a candidate change is injected through VERIF_EXTRA_OVERLAY, rewrite a merged copy of the package
merged() { # $1 = relative package dir ("." for root)
  local d="$out/src/$1"; mkdir -p "$d"
  cp "$REPO/$1"/*.go "$d"/ 2>/dev/null || true
  if [ -n "${VERIF_EXTRA_OVERLAY:-}" ] && [ -d "$VERIF_EXTRA_OVERLAY/$1" ]; then
    find "$VERIF_EXTRA_OVERLAY/$1" -maxdepth 1 -name '*.go' -exec cp {} "$d"/ \;
  fi
  echo "$d"
}
hooks='stackStorage.set=AccessSet(s, n, n == len(s.data));stackStorage.get=AccessGet(s, n);Stack.ToSlice=AccessRange(s.storage, s.offs, s.size)'
build/bin/vrewrite -in "$(merged .)" -out "$out/repo/root" > "$out/root.log"
build/bin/vrewrite -in "$(merged funcGen)" -out "$out/repo/funcGen" -hooks "$hooks" > "$out/funcGen.log"
build/bin/vrewrite -in "$(merged value)" -out "$out/repo/value" -fields "List.items,List.itemsPresent,List.iterable,List.size" > "$out/value.log"
# iterator module: rewritten copy
itdir="$(cd "$REPO" && go list -m -f '{{.Dir}}' github.com/hneemann/iterator)"
mkdir -p "$out/iterator"
cp "$itdir"/go.mod "$out/iterator/"
[ -f "$itdir/go.sum" ] && cp "$itdir/go.sum" "$out/iterator/"
for f in "$itdir"/*.go; do case "$f" in *_test.go) ;; *) cp "$f" "$out/iterator/";; esac; done
chmod -R u+w "$out/iterator"
mkdir -p "$out/iterator.rw"
build/bin/vrewrite -in "$out/iterator" -out "$out/iterator.rw" -tag "" > "$out/iterator.log"
cp "$out/iterator.rw"/*.go "$out/iterator/" 2>/dev/null || true
rm -rf "$out/iterator.rw" "$out/src"
# swap in atomically
rm -rf build/coop.old; [ -d build/coop ] && mv build/coop build/coop.old; mv "$out" build/coop; rm -rf build/coop.old
# overlay: accessor files + rewritten /repo files (+ the extra overlay for files that needed no rewriting)
ov="${VERIF_COOP_OVERLAY:-$VERIF_ROOT/build/overlay-coop.json}"
{
  echo '{"Replace":{'
  first=1
  emit() { [ $first = 1 ] || echo ','; first=0; printf '"%s":"%s"' "$1" "$2"; }
  for f in $(cd overlay && find . -name '*.go' | sort); do
    f="${f#./}"
    if [ -n "${VERIF_CHECK:-}" ] && ! grep -q "^// verif:checks .*\b${VERIF_CHECK}\b" "$VERIF_ROOT/overlay/$f"; then continue; fi
    emit "/repo/$f" "$VERIF_ROOT/overlay/$f"
  done
  if [ -n "${VERIF_EXTRA_OVERLAY:-}" ]; then
    for f in $(cd "$VERIF_EXTRA_OVERLAY" && find . -type f -name '*.go' | sort); do
      f="${f#./}"; d="$(dirname "$f")"; b="$(basename "$f")"; [ "$d" = "." ] && rd=root || rd="$d"
      [ -f "build/coop/repo/$rd/$b" ] || emit "/repo/$f" "$VERIF_EXTRA_OVERLAY/$f"
    done
  fi
  for f in build/coop/repo/root/*.go; do [ -f "$f" ] && emit "/repo/$(basename "$f")" "$VERIF_ROOT/$f"; done
  for p in funcGen value; do for f in build/coop/repo/$p/*.go; do [ -f "$f" ] && emit "/repo/$p/$(basename "$f")" "$VERIF_ROOT/$f"; done; done
  echo '}}'
} > "$ov.$$.tmp"
mv -f "$ov.$$.tmp" "$ov"
# modfile: /verif/go.mod + replace of the iterator module by the rewritten copy
{
  cat go.mod
  echo
  echo "replace github.com/hneemann/iterator => $VERIF_ROOT/build/coop/iterator"
} > build/coop.mod
cp go.sum build/coop.sum
