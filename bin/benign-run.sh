#!/usr/bin/env bash
# usage: bin/benign-run.sh [k…]  — runs the quick tier of EVERY check on each behaviour-preserving change under
# benign/<k>/patch.diff (through the build overlay, /repo untouched). A VIOLATION here is a false alarm;
# exit 2 (cannot decide: instrumentation anchor or accessor no longer fits the edited tree) is reported as UNDECIDED.
cd "$(dirname "${BASH_SOURCE[0]}")/.."
ks="$*"; [ -n "$ks" ] || ks="$(ls benign | sort -n)"
for k in $ks; do
  wt="/tmp/benign-wt-$k-$$"; ov="/tmp/benign-ov-$k-$$"
  git -C /repo worktree add -q --detach "$wt" HEAD || exit 2
  git -C "$wt" apply "$PWD/benign/$k/patch.diff" || { echo "benign $k: patch does not apply"; git -C /repo worktree remove --force "$wt"; continue; }
  mkdir -p "$ov"
  (cd "$wt" && git status --porcelain | awk '{print $2}' | while read -r f; do mkdir -p "$ov/$(dirname "$f")"; cp "$f" "$ov/$f"; done)
  git -C /repo worktree remove --force "$wt"
  export VERIF_EXTRA_OVERLAY="$ov"
  for c in C01 C02 C03 C04 C05 C06 C07 C08 C09 C10 C11 C12 C13 C14 C15 C16 C17 C18 C19 C20; do
    out="$(bin/verif check "$c" --tier quick 2>&1)"; rc=$?
    case $rc in
      0) echo "benign $k $c ok" ;;
      1) echo "benign $k $c FALSE-ALARM :: $(echo "$out" | grep -A3 '^VIOLATION' | head -8 | tr '\n' ' ' | cut -c1-600)" ;;
      *) echo "benign $k $c UNDECIDED rc=$rc :: $(echo "$out" | tail -3 | tr '\n' ' ' | cut -c1-300)" ;;
    esac
  done
  unset VERIF_EXTRA_OVERLAY; rm -rf "$ov"
done
