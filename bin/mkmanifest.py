#!/usr/bin/env python3
"""Regenerates /verif/MANIFEST.json from the table below (kept in one place so that the manifest,
the not_applicable list and the properties file never disagree)."""
import json, os, sys

ROOT = os.path.dirname(os.path.dirname(os.path.abspath(__file__)))

BEX = "bounded-exhaustive enumeration (every case of a finite space up to the stated bound, sharded over 16 worker processes)"

# id -> dict(level, text, note, technique, design_ref, engine)
CHECKS = {
    "C19": dict(
        level="exploration",
        engine="bex",
        text="Every bool expression with <= 4 operator nodes over {a,b,c,true,false} (all 13.3 M trees) and every float "
             "expression with <= 3 (thorough: 4) operator nodes on an exact-arithmetic grid is generated on the package's own "
             "example generators, on replicas with permuted commutative flags and on replicas with the operators declared in 3 other orders (other priorities; the prefix operator's binary twin first), optimizer on and off, evaluated on every "
             "assignment and compared with direct evaluation by the operators' Go definitions; let/if forms incl. lets nested inside the "
             "value of a let, evaluated also through Func.Eval on rows of one table, with the variable names handed to Generate as a "
             "slice with spare capacity (results, table and names must be untouched); 600 float if/let forms (conditions and constant branches of every truth value; nested lets in the arguments of 2- and 3-argument functions, fresh and used stacks). Exhaustive within the bound, "
             "which is the whole quantifier of the property for bools.",
        note="Trusted: the tree renderer (its grouping rules are those stated in the property; cross-checked by C03's reference "
             "parser) and Go's float arithmetic. Float cases whose arithmetic is not exact (checked with big.Rat) are excluded.",
        technique="bounded-exhaustive enumeration of expression trees x assignments x optimizer settings against a direct evaluator",
        design_ref="DESIGN.md §5 C19",
    ),
}

CHECKS.update({
    "C01": dict(
        level="exploration", engine="bex",
        text="Every int-sorted program of a typed grammar of the value language (let, func with bounded-descent recursion, closures with 1..2 "
             "parameters, currying, if/switch/try, list/map literals, index, member, map-field closure calls, map/reduce/sum/size/append, min/throw) "
             "with <= 7 (thorough: 8) nodes, and every nesting of <= 4 (thorough: 5) binding/call constructs in every argument position with a maximal "
             "observer in the innermost hole, is generated with the optimizer on and off and evaluated on every argument tuple; the outcome must "
             "equal that of an independent reference interpreter. Two further spaces: every closure-calling lazy stage (and closure-free stages over them) kept "
             "unevaluated across 9 kinds of later frames against its materialised twin, and 16 binary operators x 21 x 21 operands of EVERY sort (ill-typed "
             "pairs included; the typed grammar builds well-typed programs only). Template families for what lies outside the node bounds: locals named like static functions, closures under method "
             "names, one call site reached with different kinds of maps, a switch matrix (2-3 cases, constant and non-constant subjects and labels of every sort), recursive funcs declared inside "
             "capturing closures, index accesses nested in stack-running closures. Exhaustive within those bounds (about 11 M evaluations quick).",
        note="Trusted: the reference interpreter internal/refsem (lexically scoped, call-by-value, left-to-right; only ok-vs-error for faults) and the "
             "renderer internal/vlang. Not decided: programs larger than the bounds, floats/strings as arguments (covered by C02/C14 tables).",
        technique="bounded-exhaustive enumeration of programs x argument tuples x optimizer settings against a reference interpreter",
        design_ref="DESIGN.md §5 C01",
    ),
    "C02": dict(
        level="exploration", engine="bex",
        text="Differential twin: the whole input space of the optimizer's folding and regrouping rules (every operator x 8 chain shapes x 12 constants of "
             "every sort x 8 argument values; unary/if/switch/index/member/method/application/try on every constant) and every program of the typed grammar "
             "with counting host functions up to 7 (thorough: 8) nodes is generated with the optimizer on and removed; outcomes and impure-call counts must "
             "agree, no impure call during Generate, and counts must equal the reference interpreter's. A switch matrix (2-3 cases, 6 subjects x 9 labels per case, constant and not, with counting labels and results) "
             "decides the left-to-right first-match rule under folding.",
        note="Trusted: SetOptimizer(nil) really disables folding; counting host functions tick (impure) / ptick (pure). Float constants are dyadic so the "
             "rounding allowance is never used. The float/bool instantiations are decided by C19's check.",
        technique="bounded-exhaustive differential enumeration (optimizer on vs off) with call counters and a reference interpreter",
        design_ref="DESIGN.md §5 C02",
    ),
})

CHECKS.update({
    "C16": dict(
        level="exploration", engine="bex",
        text="Differential twin: every program of the typed grammar with <= 6 (thorough: 7) nodes and every binder skeleton of depth <= 3 (thorough: 4) "
             "whose free identifiers are attributes of the argument map (locals and constants shadow them; uses at every closure nesting level) is "
             "generated with GenerateWithMap(exp) and, after the checks' own free-variable substitution x -> this.x on the AST, with Generate(exp'); both "
             "are evaluated on the same map in five storage representations, optimizer on and off; Generate-time success and outcomes must agree. A second "
             "attribute set holds closures (f:(int,int)->int, g:int->int): implicit calls f(..) against the method-call form this.f(..), with let/func inside the arguments; "
             "a third one stores closures under names of map methods (put, get); constants added to a generator AFTER its first GenerateWithMap must shadow attributes too; the fixed templates and all binder skeletons with <= 2 binders also run with the "
             "argument map named m, max, string, numbers (static functions), pi (a constant) and a (one of its own attributes), with every free attribute use written alone in parentheses, and 12 programs on a generator with an empty identifier table.",
        note="Trusted: the free-variable substitution of internal/vlang. The explicit form's own correctness is C01's claim.",
        technique="bounded-exhaustive differential enumeration (implicit vs explicit attribute access)",
        design_ref="DESIGN.md §5 C16",
    ),
})

CHECKS.update({
    "C14": dict(
        level="exploration", engine="bex",
        text="A pool of about 220 values (thorough: about 400: ints up to +-(2^53-1), floats with +-0, +-Inf, NaN, neighbours of ints and finite values beyond the int range (2^63, +-1e19), strings, bools, closures, "
             "nested lists eager and lazy in 7 representations (incl. concatenations with exactly one part of unknown size), maps in 5 representations, plus every list of length <= 2 (3) and every map over two keys "
             "from a small atom set) is enumerated exhaustively: all ordered pairs x the 7 operators = != < > <= >= ~, each generated once as 'a OP b' and "
             "called on freshly built argument values, are checked against a reference relation written from the property text and against every law of the "
             "property as relations between table entries; all triples of the numeric and string sub-pools for transitivity; min, max, list.min/max, "
             "order, orderRev and switch on all pairs and on all triples of the hand-picked values must agree with the operator tables. Every operator is also "
             "evaluated twice on the SAME operand objects (same outcome; each operand still equals a fresh copy of itself) and on ONE object standing on both sides, bare "
             "and nested in a list/map (outcome as for two separately built equal values); the map pool includes replace maps that hide a replacement key outside their key set.",
        note="Trusted: the ~260-line reference relation (numbers via math/big). Categories the property text leaves open (closure = closure, < on bools, "
             "string~string, string~map, list~list, map = map where key order decides error-vs-false, NaN in min/max/order) are excluded and counted "
             "under unspecified_excluded. An error that is a recovered Go panic satisfies 'fails with an error' (C05 owns catchability).",
        technique="bounded-exhaustive operator outcome tables over a value pool checked against algebraic laws and a reference relation",
        design_ref="DESIGN.md §5 C14",
    ),
})

VS = ("Trusted: the scheduler shim verif/vsched (channel/select/WaitGroup/Mutex semantics per the Go spec, vector-clock happens-before) and the generic "
      "rewriter tools/vrewrite that binds it to the CURRENT sources at check time; sequentially consistent interleavings at synchronisation granularity; "
      "virtual time (only the host function slow() costs time; timers fire when nothing else is enabled). History-key pruning of the search is sound for "
      "communication through hooked operations (channels, WaitGroup, Mutex and atomics with reads-from identity, hooked fields and stack slots); memory no "
      "hook sees is covered by unpruned preemption-bounded passes (C06, C11) and free-running -race passes (C05, C06).")
CHECKS.update({
    "C06": dict(
        level="model_checking", engine="vsched",
        text="The goroutine code of /repo and of the pinned iterator dependency is rewritten mechanically onto a controlled scheduler; for each of ~3200 "
             "(thorough: ~6500, W in {2,3}) pipeline scenarios (pre-stage x parallel map/accept x post-stage x terminal, sizes around the switch to parallel "
             "execution at item 12, failing elements in the sequential and the parallel phase, merge with stack-using operands, multiUse consumer pairs incl. "
             "consumers that stop at once, shared lazy lists, groups handed across goroutines, nested parallel stages) ALL interleavings are explored on the real code (stateless DFS, history-key pruning, no preemption bound) and every terminal "
             "state is checked: outcome = strictly sequential reference, no happens-before data race on the value stacks, no deadlock, no panic on a "
             "library goroutine. Failing elements are thrown errors and Go panics, in closures created at run time and in closures the optimizer turned into constants. A conformance pass evaluates every quick scenario on the PLAIN build (real goroutines, a really sleeping slow()) against "
             "the sequential variant. Every scenario is explored a second time WITHOUT pruning under a preemption bound of 2 (thorough: 3; capped per scenario, cap hits in the evidence). A third pass runs the same scenarios free-running on a -race build; every distinct report is classified.",
        note=VS + " List lengths beyond 17 and more than 3 elements in the parallel phase are not explored (each further element repeats the same worker cycle). "
             "A multiUse consumer that never iterates its list yields the pinned 'iterator timed out' error (repository test) and is excluded from the outcome oracle.",
        technique="stateless model checking of the implementation under a controlled scheduler: exhaustive interleaving exploration with vector-clock race detection",
        design_ref="DESIGN.md §3.3, §5 C06",
    ),
})

CHECKS.update({
    "C08": dict(
        level="exploration", engine="bex",
        text="Every pipeline numbers(n).map(counting closure) -> <=2 (thorough: <=3) lazy stages out of 18 variants (map, accept, skip, top, combine*, iir*, number, "
             "compact, +, cross, fsm) -> 9 short-circuit consumers (first, single, top(k).size/.string, present, indexWhere, v~list, [v]~list, multiUse of two of them), decisive "
             "position 0..6 or absent, source lengths {0,1,2,5,k+5,24,10^11} (the finite ones also materialised with eval() before the stages), with one failing call at every position 0..needed+3 of the source, of each stage "
             "closure and of the consumer predicate, or nowhere (1.7 M / 38 M cases), is executed on the real code with counting host functions that abort after "
             "1000 calls. Call counts must lie between the needed prefix and needed + one read-ahead per stage of a declarative demand model whose transfer "
             "functions are validated against brute-force prefix stability; the result must be what the needed prefix determines (a failure inside it surfaces, "
             "behind it does not); the clean cases again with the consumer running twice on the same lazy list in one evaluation (same result, calls within "
             "twice the bounds); unconsumed pipelines evaluate nothing. Coop build: one slow map/accept stage, 11 consumers, decisive source element 10..15, "
             "W=2 (thorough: 2,3): ALL interleavings on n=30 (terminates, sequential result, needed <= calls) and all timing-consistent interleavings on n=30 and "
             "10^11 (calls <= sequential demand + W, pulls <= +1, independent of the source length).",
        note="Trusted: the check's own eager reference and demand model (cmd/c08/model.go, validated against brute force over 32 continuations), the counting host "
             "functions, " + VS + " No read-ahead bound is asserted under arbitrary schedules, because none exists: the collector of the parallel stage buffers "
             "out-of-order results without limit (measured maximum = source length); the worker-count bound is decided under 'equal closure durations, "
             "instantaneous communication'. multiUse after an evaluated failing element: only result, termination and lower bounds. The 10^11 source is analysed "
             "on its first 40 elements. Evaluations over 2 ms are repeated (the plain build could have switched to goroutines on wall-clock time).",
        technique="bounded-exhaustive enumeration against a brute-force-validated demand model with counting host functions + stateless exploration of all "
                  "(timing-consistent) interleavings under a controlled scheduler",
        design_ref="DESIGN.md §5 C08, Appendix B, Corrections C-2",
    ),
})

CHECKS.update({
    "C12": dict(
        level="model_checking", engine="vsched",
        text="Every token sequence of <= 4 (thorough: 5) tokens over a 25-token alphabet (incl. a superscript digit, which the tokenizer turns into two tokens) and longer programs cut at every token or followed by trailing tokens "
             "(every way parsing can stop early), on the generic parser, on value Generate and on value Generate in comfort mode, and ~250 (thorough: ~900) pipeline evaluations whose consumer stops "
             "early (first, top, present, indexWhere, single, ~, = with lists, multiUse) over every function-calling stage with a slow function, or whose elements fail, around the switch to parallel execution, are run on the real "
             "code under the controlled scheduler with ALL interleavings; at every terminal state every vthread must have terminated, and the number of "
             "transitions executed after the call returned must not grow when the source is doubled.",
        note=VS + " Quiescence under the scheduler replaces the wall-clock grace period of the property. Findings F12b/F12c live in the pinned iterator "
             "dependency and are recorded in known_findings.json, matched by narrow classifiers on the start site and parking operation of the leaked goroutines.",
        technique="stateless model checking of the implementation under a controlled scheduler: exhaustive interleaving exploration with a quiescence (goroutine-leak) oracle",
        design_ref="DESIGN.md §3.3, §5 C12",
    ),
})

CHECKS.update({
    "C20": dict(
        level="exploration", engine="bex",
        text="Every start/size/count grid (start 0,-1.5,10 x size 1,0.5,2 x every count 0..64 for single records; counts 0,1,2,3,64 for lists) is combined with "
             "every list of <= 3 (thorough <= 4) records whose x lies on every bin edge, edge +- size/2, edge +- 1 ulp, far outside, 0, -0, +-2^62..2^70, +-1e30, "
             "+-MaxFloat64 (weights 1, 0.5, -2), in one and two dimensions (all 45x45 axis pairs for single records), evaluated through value.New().Generate on the "
             "real binning/binning2d/collectBinning and compared with a reference histogram, the exact weight sum and the exact interval description of every bin. "
             "Single records are also binned on 4608 (thorough: 18432) grids with sizes n, n/2, n/8 for every n <= 128 (512). Additivity is checked for every list against every splitting into 1 part, 2 parts (all subsets) and 3 contiguous parts, empty parts included, "
             "collecting twice from the same part binnings (collecting must not change its parts). Lists of <= 2 (2-d: <= 1) records are also binned AFTER the same binning has failed half way on a list with a string in a numeric field, after a binning on the same start and size with another count, and with the result's own lists appended to before it is judged. "
             "Exhaustive within these bounds (4.3 M cases quick, about 115 M thorough).",
        note="Trusted: the reference bin index (comparisons of x with edges start+k*size computed with big.Rat and asserted exactly representable), Go float64 "
             "addition of dyadic weights. +-1-ulp neighbours of an edge are judged only when (x-start)/size is exact in float64 (others counted in "
             "unspecified_excluded); the label str is judged up to the decimals it displays; NaN/Inf coordinates and size <= 0 are outside the property; "
             "Size()/iteration of the bin description maps belongs to C13.",
        technique="bounded-exhaustive enumeration of grids x record lists x list splittings against an exact interval-definition oracle",
        design_ref="DESIGN.md §5 C20",
    ),
})

CHECKS.update({
    "C05": dict(
        level="exploration", engine="bex",
        text="(a) plain build: all 17 binary and 2 unary operators, 9 access/call/control forms and every static function and every method of every built-in "
             "type (enumerated from the library's own documentation tables, documented arity and arity +-1) are applied to every argument tuple from a pool with "
             "one representative per sort plus boundary values (24 values; 6 for arity 3..4), each in 7 contexts (top level, try/catch, called closure, consumed "
             "map, let under a pending argument, try around closure/map), in worker subprocesses whose death or hang is a verdict (journaled re-run pinpoints the "
             "case); all contexts must agree on ok-vs-error and every fault must yield the catch value inside try; 26 runaway-recursion shapes. (b) coop build: "
             "3 fault kinds (throw, panicking operator, panicking host function) x 11 positions (upstream/downstream stage, parallel mapper/filter, terminal "
             "closure and loop body, merge comparator/operands, multiUse consumer/source) x fault in the sequential phase / first parallel item / last item, bare "
             "and inside try, ALL schedules under the controlled scheduler: no panic may reach the top of a library goroutine, outcome error resp. catch value; "
             "faults in lazy lists inside the RESULT of a multiUse function (6 positions); 33 multiUse functions misusing their list; every method of the list type x "
             "argument tuples x 6 receivers of 16 items behind a map stage that runs parallel from item 13 (the method's own Go code then runs on a goroutine "
             "of the iterator library); 32 non-terminating recursion shapes through every function-calling method. (c) -race build: the scenarios of (b) free-running, every report of the race detector classified.",
        note="Trusted: process exit status and the journal for crash pinpointing; that an input IS a fault is taken from the library's own bare evaluation, except "
             "for the arithmetic/indexing faults the property names (must be errors). A 64 MB goroutine stack limit is set in the workers so that runaway "
             "recursion dies quickly. Requests to allocate 2^62 elements are excluded (resource exhaustion). " + VS,
        technique="bounded-exhaustive fault table in crash-isolated worker processes + stateless model checking of fault-injection scenarios under a controlled scheduler",
        design_ref="DESIGN.md §5 C05",
    ),
})

CHECKS.update({
    "C04": dict(
        level="exploration", engine="bex",
        text="Every string of <= 4 (thorough <= 5) symbols over a 29-symbol byte-level alphabet (one representative of each scanner class plus every trouble-maker: "
             "quotes, backslash, comment openers, NUL, invalid UTF-8, alias and superscript runes) and every sequence of <= 4 (<= 5) tokens over the 32-token "
             "value-language alphabet is passed to the real Parser.Parse (generic table) and value.New().Generate with comments and comfort on and off, on the plain "
             "build with real goroutines; the same for n-fold repetitions of 34 openers (incl. nested closures that use names they do not declare and postfix chains f()()().., a(1)(1).., a.m().m()..) up to 64 KiB and for every valid <= 3-token program padded to 64 KiB with "
             "blanks and comments; also every string of <= 4 (<= 5) symbols over a 22-symbol alphabet with one rune of every Unicode class the scanner's predicates "
             "tell apart (No, Nl, Nd of other scripts, letters, symbols, Zs/Zl, Mn, Cf), and 2478 constant expressions whose folding may fail (17 binary operators x "
             "12 x 12 constant operands, 30 unary/index/method forms) at each of 42 syntactic positions, 8 programs whose constant part recurses without end, 10 whose constant part panics on goroutines of multiUse/merge, and every sequence of <= 4 (<= 5) tokens on "
             "Generate of funcGen.New[float64] / New[bool] configured like example/minimal.go and example/bool.go (none of the optional handlers). A case fails if it panics (recover), kills the process (journaled re-run), does not return (CPU/wall watchdog) or, for the 64 KiB "
             "families, grows more than 8x in CPU time when the input doubles. Exhaustive within those bounds (14 M calls quick); edge configurations (last binary "
             "operator also prefix, empty table, nothing optional, 28 priority levels) run on smaller bounds. Deadlock freedom of the tokenizer/parser pair under "
             "every schedule is decided exactly by C12's parser space under the controlled scheduler.",
        note="Not 'every 64 KiB byte string'. The time oracle is a loose ratio that a clean quadratic passes. On the plain build a deadlock is detected by a 60 s "
             "wall-clock watchdog only (never a short wall-clock oracle); the exact analysis is in C12. Trusted: Go recover, process exit status, "
             "clock_gettime(PROCESS_CPUTIME).",
        technique="bounded-exhaustive enumeration with arithmetic index->input decoding in recycled child processes; oracle: returns a result or an error (recover, crash pinpointing, CPU/wall watchdog, CPU-time ratio)",
        design_ref="DESIGN.md §5 C04",
    ),
    "C13": dict(
        level="model_checking", engine="hbfs",
        text="Explicit-state BFS over all histories of <= 4 (thorough: 5) operations - new source (literal, {}, RealMap, struct wrapper, function map, bin map), put, +, "
             "replace with a literal / with another map inside and outside the key set, eval, map, accept, combine - executed on the real value.Map objects; after "
             "every transition every live handle is observed through 23 observers (member access, get, isAvail, ~, size, list, string, map/accept iteration, iteration "
             "stopped at once, map/accept with a callback failing at every key in turn, = against rebuilt literals, one-place variants and all peers, JSON export, Go API) against a Go map fixed at creation, plus a complete storage-dump persistence "
             "check. States are deduplicated on (model, hidden storage-wrapper tree). 36 further sources (incl. struct wrappers with an attribute registered twice) are explored alone, and replace chains up to length 13/24 with "
             "put/+/eval/map interleaved at every position cross the depth-10 flattening and the 20-key RealMap threshold. Exhaustive within these bounds (quick "
             "260 680 / thorough 11.2 M transitions, every one executed on the implementation).",
        note="Bounded: no fixpoint of storage shapes exists (wrappers nest unboundedly); longer histories are covered only by the replace-chain families. Trusted: the "
             "overlay accessor's dump covers every field the map code reads. 'replace' with keys outside the original is probed once on the real code and that reading is demanded everywhere; "
             "'combine' with a missing key accepts two readings (all observers must agree); states merge different listMap entry orders.",
        technique="explicit-state BFS over operation histories on real objects with replay from fresh sources, canonical state keys from an overlay-added storage accessor, finite-map reference model",
        design_ref="DESIGN.md §3.4, §5 C13",
    ),
    "C15": dict(
        level="exploration", engine="bex",
        text="Every valid program of <= 5 tokens over a 35-token alphabet of the value language (43 k programs; validity decided by the real parser) plus 37 fixed longer "
             "programs is rendered with every admissible separator of the property's set (blanks, tabs, CR, LF, both comment kinds tight and set off, containing "
             "quotes/stars/slashes/line breaks, at end and start of input) in every gap one at a time, with every assignment to all gaps at once for programs <= 3 "
             "(thorough <= 4; <= 5 with a 6-separator set) tokens and every pair of gaps beyond, x comments on/off x comfort on/off. The parse must give the canonical "
             "rendering's AST, and every node/error line must be the renderer's line of the token that node kind records. All strings and quoted identifiers of <= 3 "
             "(<= 4) symbols, all aliases/superscripts (aliases also with comments written tight against them) and all comfort juxtaposition patterns are checked against source string / ASCII spelling / explicit '*'. "
             "Every block-comment content of <= 3 (4) symbols over {c * / LF blank quote} and every line-comment content of <= 2 (3) symbols is placed in every gap "
             "of 11 fixed programs. Exhaustive within these bounds (10.6 M evaluations quick, 214 M thorough).",
        note="Trusted: the check's reference lexer (decides which separators are admissible), the node-kind->token rule read off parser2.go, Go's strings. Optimizer "
             "removed. Unspecified and counted: line of the inserted comfort '*', comment-without-blank before '(', error at EOF has no line, juxtaposition with "
             "quoted identifiers.",
        technique="bounded-exhaustive enumeration of token sequences x separator assignments x configurations with a metamorphic oracle (canonical rendering) and a renderer-computed line oracle",
        design_ref="DESIGN.md §5 C15",
    ),
    "C17": dict(
        level="exploration", engine="bex",
        text="Every Unicode scalar value as a one-code-point string, every string of <= 2 (thorough: 3) symbols over a 24-symbol trouble alphabet as value and key in "
             "every list/map representation constructible through the public API (13+1 map, 6+1 list), 19 boundary scalars, and every value tree of height <= 3 with "
             "<= 2 children per node (thorough: also 4 leaf classes and every such tree below 1-2 further containers, depth 5) is exported by the real JSON exporter; "
             "encoding/json must accept the document and a token-level decode must yield arrays in order, exactly the key set without duplicates, and every scalar as "
             "the JSON string of its string form; every document is kept as returned and must be unchanged after the next value has been exported; every small tree is also exported directly after each of 12 exports that fail or panic half way; every trouble symbol behind fillers of every length 0..200 (thorough 1100). Exhaustive within these bounds (5.2 M / 53 M cases).",
        note="Trusted: encoding/json as the standard parser, strconv for the documented string form of scalars, the tree builder internal/exptree. Domain: valid UTF-8, "
             "distinct keys. Not decided: all binary trees of height >= 4, strings longer than 3 symbols.",
        technique="bounded-exhaustive enumeration of value trees x representations, decided by decoding the real output with an independent parser",
        design_ref="DESIGN.md §5 C17",
    ),
    "C18": dict(
        level="exploration", engine="bex",
        text="Every string of <= 2 (thorough: 3) symbols over a 26-symbol markup alphabet in every data position of the XML exporter and of ToHtml (text, keys, "
             "attribute values, link targets, style strings / maps / closures, File names and mime types, table formats; inlineStyle on/off), every list/map tree of "
             "height <= 3 in every representation, every wrapper tree of height <= 2 (thorough: 3), list sizes around maxListSize 0-3 in both dimensions, and "
             "failing/panicking producers and closures: the complete output is tokenised by encoding/xml (strict) and must be balanced, use only the exporter's "
             "vocabulary (plus map keys that are XML names), decode in every text and attribute to exactly the value's strings, preserve list order and key sets, and "
             "ToHtml must return an error, never panic; every XML document is kept as returned and must be unchanged after the next export; every markup symbol behind fillers of every length 0..150 (thorough 700). Exhaustive within these bounds (1.36 M / 38 M cases).",
        note="Trusted: encoding/xml plus the harness' own end-tag matching, attribute-uniqueness and attribute-normalisation decoder; the HTML reference model in "
             "cmd/c18/model.go (decoration texts and float formatting accepted as any text). Counted unspecified: raw TAB/LF in ToHtml attribute values, name-space "
             "meaning of keys with ':' or prefix 'xml', names valid only in XML 1.0 5th edition, indentation next to text in plainList output.",
        technique="bounded-exhaustive enumeration of value/wrapper trees x exporter settings, decided by tokenising the real output and comparing it with a reference tree",
        design_ref="DESIGN.md §5 C18",
    ),
})

CHECKS.update({
    "C09": dict(
        level="model_checking", engine="hbfs",
        text="Explicit-state breadth-first search over operation histories executed on the real list/map objects: every history of <= 3 (thorough 4) operations of the "
             "full list alphabet (13 producers, 12 consumers) and <= 4 (5) of the core/map alphabets over 19 initial pools (literal, lazily produced, spare-capacity, "
             "folded-constant and inside-function-constant lists; literal / constant / struct-wrapper / hash maps), all append trees of <= 7 (9) appends, chains of "
             "<= 8 (12) appends with branches at every position, and lists kept by callbacks. After every transition every live handle is compared through all "
             "observers with a functional model fixed at creation; states are deduplicated on model value plus hidden state (itemsPresent, len, cap, backing-array "
             "sharing, laziness, wrapper nesting). The alphabet includes a HOST iteration through List.Iterate that stops behind the first element. Quick: 675 k states, 1.9 M transitions, every one executed on the implementation.",
        note="Trusted: the functional model written from the method descriptions; Go's non-moving allocator (array identity read as an address within one execution); "
             "128-bit key hashes. Bounded by depth (no fixpoint: pools grow) and by list length <= 12 in the general alphabets. Map key order of hash-backed storages is "
             "compared as a set. Parallel iterator mode and replace keys outside the key set are left to C06/C11/C13.",
        technique="replay-based explicit-state BFS on real objects with hidden-state canonical keys (overlay accessors), functional reference model",
        design_ref="DESIGN.md §3.4, §5 C09",
    ),
})

CHECKS.update({
    "C11": dict(
        level="model_checking", engine="vsched",
        text="46 (thorough: 50) programs and the product of 32 kinds of constant list x 5 (thorough: 41) run-time consumers whose folded constants meet run-time values (lazy, eager, nested and map-embedded list constants indexed, appended, sorted, "
             "compared, searched; constants with spare capacity; private lazy lists whose producers use the passed stack; constant maps, closures, strings; recursion; failing accesses) are generated freshly inside every execution and evaluated by T=2 and T=3 "
             "vthreads at once with equal and different arguments under the controlled scheduler. Every read/write of value.List's fields items, "
             "itemsPresent, iterable, size (generated hooks at all 73 access sites) is a scheduling point and a race-checked access, so ALL sequentially consistent "
             "interleavings at field granularity are explored (history-key pruning), and again WITHOUT pruning every schedule with <= 3 (T=3: 2; thorough +1) "
             "preemptions; every vthread's outcome must equal its isolated outcome and no two conflicting accesses may be unordered by happens-before. The same "
             "programs run free-running on real goroutines, each time on a FRESH generator (state filled lazily by the first evaluations is only racy while cold): "
             "on the plain build (outcomes) and on the -race build, where every report of Go's race detector is classified.",
        note=VS + " What a vthread reads from a hooked field enters its history as the identity of the write it observed, which keeps state-key pruning sound. "
             "The only state shared between evaluations are the function's folded constants and the generator; weak-memory effects of a racy program are out of "
             "reach, which is why the race itself is the reported violation (finding F11, known).",
        technique="stateless model checking of concurrent evaluations under a controlled scheduler with field-granularity scheduling points and vector-clock race detection",
        design_ref="DESIGN.md §3.3, §5 C11",
    ),
})

CHECKS.update({
    "C07": dict(
        level="exploration", engine="bex",
        text="Every built-in that value.New() documents except 9 (107 of 116; names and arities read from GetDocumentation) is called on every receiver of a fixed pool "
             "(12 list contents each eager/lazy-sized/lazy-unsized, 10 strings, 4 map contents in 3 storage representations, 16 scalars) with every choice of its "
             "callback pool (good callbacks, wrong arity, non-function, wrong result type, throw at the first/middle/last element) and numeric arguments "
             "{-1,0,1,2,size,size+1,1.0,\"1\"}, as function arguments and again as literals with the optimizer on; then every sort-correct chain of 2, 3 and 4 of 113 "
             "built-in steps with the flowing value as receiver and, for cross/merge/+/=/~, as argument (quick: 3.1 M, thorough: 44 M evaluations, exhaustive within "
             "these bounds); every list step once on two lists of 6000 items. The forced result must equal an independent reference "
             "library written from the method descriptions (deep equality; permutation-without-inversion for order*/orderLess; unordered groups for "
             "groupBy*/unique*/map.list; error for misuse, failing callbacks and empty reductions).",
        note="Trusted: internal/refsem (core plus libfull.go, written from the SetMethodDescription texts and DESIGN.md Appendix B), internal/vlang rendering, the vrun "
             "value conversion. Not decided: the ~40 unspecified categories counted in the evidence (laziness-dependent fault cases = C08, single() on more than "
             "one item, len/indexOf unit on non-ASCII strings, float text, sign(0), map.combine with a missing key, non-equivalence compact callbacks, …), the 9 "
             "excluded built-ins (random*, bisection, createLowPass, linearReg, createInterpolation, binning* = C20), receivers outside the pools, chains longer than 4.",
        technique="bounded-exhaustive enumeration of (built-in or chain, receiver, arguments) against a reference library model",
        design_ref="DESIGN.md §5 C07, Appendix B",
    ),
})

CHECKS.update({
    "C03": dict(
        level="exploration", engine="bex",
        text="Every operator table of 1..3 (thorough: ..4) binary spellings from a 12-spelling pool built to collide under maximal munch, with every subset of prefix "
             "operators {- ! ~} (also binary at every position including the last; such tables also with the builder calls in the orders Unary.Op and Op.Unary.Op) and a text alias on/off, plus dead-end, prefix-of-binary, non-ASCII-spelling and 16-operator tables, "
             "is combined with every operator tree of <= 3 (thorough: 4) nodes in every parenthesisation (minimal, every subset of redundant pairs, full), with postfix "
             "and keyword forms around and inside the trees. The real Parse's AST must equal the tree of a reference precedence-climbing parser written from the "
             "property statement, which itself must reproduce every generated tree from every rendering. Every single-token deletion, insertion or substitution of every valid token "
             "string of <= 6 (thorough: 7) tokens on 7 tables (alphabet incl. a quoted identifier spelled like an operator) must be rejected unless the reference accepts it; panics are violations. Exhaustive within these bounds "
             "(35 M evaluations quick).",
        note="Bounds are far below the quantifier's 16 operators and depth, except for three 16-operator orders at <= 2/3 nodes. Leaves are labelled a b 1 by position. "
             "Trusted: the reference parser (cross-validated against the renderer on every tree) and the layout rule. Counted as unspecified and excluded: '->' after an "
             "identifier (closure syntax), list literals, trailing commas, keyword forms unparenthesised after an operator.",
        technique="bounded-exhaustive enumeration of operator tables x expression trees x parenthesisations and of single-token mutations, differential against a reference parser",
        design_ref="DESIGN.md §5 C03",
    ),
})

CHECKS.update({
    "C10": dict(
        level="model_checking", engine="hbfs",
        text="Explicit-state breadth-first search over evaluation histories executed on the real objects: 194 programs enumerated from templates (lazy constants indexed at "
             "run time, short-cut readers chosen at run time, appends to constants, constant maps, closures capturing the argument and returned unconsumed, lazy results "
             "forced later / half / never, failures at every let/argument depth, try/catch, recursion, multiUse, all-constant programs, host constants, static functions "
             "compiled from strings, nested evaluation) plus the product of 27 kinds of constant list x 41 run-time consumers (1107 programs), in about 1950 (thorough about "
             "2600) configurations on one value.New() generator each - every program alone, through "
             "Generate / GenerateWithMap / CreateAst+GenerateFunc, with Func.Eval and with one caller-owned stack, with Generate calls in between, and in pairs. "
             "Transitions are Eval(f,arg) over a pool of 5 arguments with the result consumed fully / first element only / not at all / later, consumption of kept "
             "handles, and Generate on the used generator. Every outcome is compared with the same call as the first evaluation on a fresh generator. States are "
             "deduplicated on the hidden state of every folded constant list, the optimizer stack, pending handles and stack residue, except that ALL histories "
             "of length <= 2 are executed without merging (state captured by Go closures is invisible to the key). Quick: about 95 000 states and 2.2 M transitions, "
             "all executed on the implementation; the evidence lists the depths at which key fixpoints were reached and which configurations ended at their depth "
             "cap; plus one to three plain 50-step histories per configuration. The program families include one call site reached with receivers of different kinds in different evaluations and index accesses nested in stack-running closures.",
        note="Differential oracle: the reference is the implementation itself on a fresh generator, so a result that is wrong already on the first evaluation is C01/C07's "
             "subject. Error texts are not compared. The fixpoint argument trusts that the key contains every field the list code reads (overlay accessors plus "
             "reflection over all other List fields) and 128-bit key hashes. Pairs, generate-in-between and host configurations are depth-bounded. Lists have fewer "
             "than 12 elements (sequential iterator mode). Concurrency is C11's subject.",
        technique="replay-based explicit-state BFS over histories on real objects to a fixpoint of a hidden-state canonical key, differential oracle against the first evaluation on a fresh generator",
        design_ref="DESIGN.md §3.4, §5 C10",
    ),
})

NOT_YET = "check not built yet in this session (planned, see DESIGN.md §9); not claimed until its machinery exists"

def main():
    props = [json.loads(l) for l in open(os.path.join(ROOT, "properties.jsonl"))]
    ids = [p["id"] for p in props]
    checks = []
    for pid in ids:
        c = CHECKS.get(pid)
        if not c:
            continue
        checks.append({
            "property_id": pid,
            "quick_cmd": f"bin/verif check {pid} --tier quick",
            "thorough_cmd": f"bin/verif check {pid} --tier thorough",
            "evidence_file": f"/verif/evidence/{pid}.json",
            "replay_cmd_template": "bin/verif replay {path}",
            "engine": c["engine"],
            "level_claimed": {"category": c["level"], "text": c["text"], "design_ref": c["design_ref"]},
            "level_note": c["note"],
            "technique": c["technique"],
        })
    na = [{"property_id": pid, "reason": NA.get(pid, NOT_YET)} for pid in ids if pid not in CHECKS]
    engines = [
        {"name": "bex", "path": "internal/bex", "kind_free_text": "bounded-exhaustive enumeration driver: 16 worker subprocesses, crash pinpointing by journal re-run, evidence writer, known-findings matcher",
         "serves_properties": [p for p in ids if CHECKS.get(p, {}).get("engine") == "bex"]},
        {"name": "vsched", "path": "internal/vsched", "kind_free_text": "controlled cooperative scheduler + stateless DFS over all interleavings of the real goroutine code (generated instrumentation), vector-clock race detector, virtual clock",
         "serves_properties": [p for p in ids if CHECKS.get(p, {}).get("engine") == "vsched"]},
        {"name": "hbfs", "path": "internal/hbfs", "kind_free_text": "explicit-state BFS over operation histories on real objects with hidden state in the canonical key",
         "serves_properties": [p for p in ids if CHECKS.get(p, {}).get("engine") == "hbfs"]},
    ]
    engines = [e for e in engines if e["serves_properties"]]
    m = {
        "version": 1,
        "setup_cmd": "bin/verif setup",
        "hooks": {
            "guard": "verif",
            "enable": "no hook commits in /repo: accessor files and rewritten sources are generated at check time and injected with "
                      "`go build -tags verif -overlay build/overlay-*.json` (files carry //go:build verif); the iterator dependency is "
                      "instrumented through a -modfile replace to a generated copy",
            "baseline_off_cmd": "cd /repo && GOFLAGS=-mod=mod GOPROXY=off go test -vet=off -count=1 ./...",
            "source_commits": [],
            "add_only": True,
        },
        "engines": engines,
        "checks": checks,
        "not_applicable": na,
        "notes": "All checks are model checking in the sense of the brief: exhaustive enumeration of a bounded space of inputs, "
                 "programs, operation histories or schedules, decided on the real code. Exit 0 = held on everything explored "
                 "(KNOWN-FINDING lines for defects listed in known_findings.json); 1 = VIOLATION; 2 = could not decide "
                 "(build failure of an edited tree).",
    }
    json.dump(m, open(os.path.join(ROOT, "MANIFEST.json"), "w"), indent=1)
    print("MANIFEST.json:", len(checks), "checks,", len(na), "not_applicable")

NA = {}

if __name__ == "__main__":
    main()
