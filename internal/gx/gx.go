// Package gx holds the generic expression trees used by the checks that quantify over operator
// tables (C03, C19, the float/bool part of C02): an enumerator of all trees with a given number of
// operator nodes, and a renderer that writes a tree as text such that the grouping rules *stated in
// the property* (ascending priorities, left associativity, prefix-also-binary operators take the
// maximal operand of strictly higher priority, pure prefix operators take the postfix expression)
// yield exactly that tree again.
package gx

import (
	"strings"
)

type Kind uint8

const (
	Leaf   Kind = iota // S = text of identifier / number / constant
	Bin                // S = operator, A, B
	Un                 // S = operator, A
	Call               // A = callee, Args
	Index              // A[B]
	Member             // A.S
	Method             // A.S(Args)
	If                 // if A then B else C
	Try                // try A catch B
	Switch             // switch A case Args[0]:Args[1] ... default B
	Paren              // explicit redundant parenthesis around A (only produced by renderers)
)

type Node struct {
	K       Kind
	S       string
	A, B, C *Node
	Args    []*Node
}

func L(s string) *Node            { return &Node{K: Leaf, S: s} }
func B2(op string, a, b *Node) *Node { return &Node{K: Bin, S: op, A: a, B: b} }
func U1(op string, a *Node) *Node { return &Node{K: Un, S: op, A: a} }

// Table is an operator table as handed to the parser.
type Table struct {
	Bin []string // ascending priority
	Un  []string // prefix operators
}

// Prio returns the priority (index) of a binary operator, -1 if absent.
func (t *Table) Prio(op string) int {
	for i, o := range t.Bin {
		if o == op {
			return i
		}
	}
	return -1
}

// UnPrio returns the binary position of a prefix operator that is also binary, else -1.
func (t *Table) UnPrio(op string) int { return t.Prio(op) }

// String renders the tree fully parenthesised (for messages).
func (n *Node) String() string {
	var sb strings.Builder
	n.full(&sb)
	return sb.String()
}

func (n *Node) full(sb *strings.Builder) {
	switch n.K {
	case Leaf:
		sb.WriteString(n.S)
	case Bin:
		sb.WriteByte('(')
		n.A.full(sb)
		sb.WriteString(" " + n.S + " ")
		n.B.full(sb)
		sb.WriteByte(')')
	case Un:
		sb.WriteString("(" + n.S + " ")
		n.A.full(sb)
		sb.WriteByte(')')
	case Call:
		n.A.full(sb)
		sb.WriteByte('(')
		for i, a := range n.Args {
			if i > 0 {
				sb.WriteString(", ")
			}
			a.full(sb)
		}
		sb.WriteByte(')')
	case Index:
		n.A.full(sb)
		sb.WriteByte('[')
		n.B.full(sb)
		sb.WriteByte(']')
	case Member:
		n.A.full(sb)
		sb.WriteString("." + n.S)
	case Method:
		n.A.full(sb)
		sb.WriteString("." + n.S + "(")
		for i, a := range n.Args {
			if i > 0 {
				sb.WriteString(", ")
			}
			a.full(sb)
		}
		sb.WriteByte(')')
	case If:
		sb.WriteString("(if ")
		n.A.full(sb)
		sb.WriteString(" then ")
		n.B.full(sb)
		sb.WriteString(" else ")
		n.C.full(sb)
		sb.WriteByte(')')
	case Try:
		sb.WriteString("(try ")
		n.A.full(sb)
		sb.WriteString(" catch ")
		n.B.full(sb)
		sb.WriteByte(')')
	case Switch:
		sb.WriteString("(switch ")
		n.A.full(sb)
		for i := 0; i+1 < len(n.Args); i += 2 {
			sb.WriteString(" case ")
			n.Args[i].full(sb)
			sb.WriteString(": ")
			n.Args[i+1].full(sb)
		}
		sb.WriteString(" default ")
		n.B.full(sb)
		sb.WriteByte(')')
	case Paren:
		n.A.full(sb)
	}
}

// Equal compares two trees structurally (Paren nodes are transparent).
func Equal(a, b *Node) bool {
	for a != nil && a.K == Paren {
		a = a.A
	}
	for b != nil && b.K == Paren {
		b = b.A
	}
	if a == nil || b == nil {
		return a == b
	}
	if a.K != b.K || a.S != b.S || len(a.Args) != len(b.Args) {
		return false
	}
	if !Equal(a.A, b.A) || !Equal(a.B, b.B) || !Equal(a.C, b.C) {
		return false
	}
	for i := range a.Args {
		if !Equal(a.Args[i], b.Args[i]) {
			return false
		}
	}
	return true
}

// RenderOpts controls the renderer.
type RenderOpts struct {
	Sep  string // written around binary operators ("" = tight, " " = blanks)
	Full bool   // parenthesise every operator node
	// Extra is consulted for every operator node that needs no parentheses: true adds a redundant pair.
	Extra func(n *Node) bool
	// Juxta > 0 writes "*" nodes as comfort-mode juxtaposition where the neighbouring tokens allow it:
	// 1 = separated by a blank, 2 = tight where lexically possible (")(" "2a" "2(" ")a"), else blank.
	Juxta int
}

const endPrio = -1000 // "nothing that could be swallowed follows"

// Render writes the tree with minimal parentheses for the table.
func (t *Table) Render(n *Node, o RenderOpts) string {
	var sb strings.Builder
	t.render(&sb, n, -1, endPrio, o)
	return sb.String()
}

// render writes n where every binary operator at the top of n's text must have priority >= min
// (else parentheses), and the token following n's text is a binary operator of priority follow
// (endPrio if n is followed by a closing token or the end of input).
func (t *Table) render(sb *strings.Builder, n *Node, min int, follow int, o RenderOpts) {
	paren := func(inner func(follow int)) {
		sb.WriteByte('(')
		inner(endPrio)
		sb.WriteByte(')')
	}
	switch n.K {
	case Leaf:
		sb.WriteString(n.S)
	case Paren:
		paren(func(f int) { t.render(sb, n.A, -1, f, o) })
	case Bin:
		p := t.Prio(n.S)
		body := func(f int) {
			// left operand: same priority allowed (left associative); followed by this operator
			if o.Juxta > 0 && n.S == "*" {
				var l, r strings.Builder
				t.render(&l, n.A, p, p, o)
				t.render(&r, n.B, p+1, f, o)
				ls, rs := l.String(), r.String()
				if sep, ok := juxtaSep(ls, rs, o.Juxta); ok {
					sb.WriteString(ls + sep + rs)
					return
				}
				sb.WriteString(ls + o.Sep + n.S + o.Sep + rs)
				return
			}
			t.render(sb, n.A, p, p, o)
			sb.WriteString(o.Sep + n.S + o.Sep)
			// right operand: strictly higher priority; followed by whatever follows n
			t.render(sb, n.B, p+1, f, o)
		}
		if p < min || o.Full || (o.Extra != nil && o.Extra(n)) {
			paren(body)
		} else {
			body(follow)
		}
	case Un:
		up := t.UnPrio(n.S)
		body := func(f int) {
			sb.WriteString(n.S)
			if up >= 0 {
				// prefix operator that is also binary: operand = maximal run of operators > up
				t.render(sb, n.A, up+1, f, o)
			} else {
				// pure prefix: operand is a postfix expression
				t.render(sb, n.A, 1<<30, f, o)
			}
		}
		need := false
		if up >= 0 {
			// The operand swallows every following operator of priority > up, and a prefix operator is
			// only recognised at operand position of the highest level: as the operand of an operator
			// of higher priority it is fine, but what follows must not be swallowed.
			need = follow > up
		}
		if min >= 1<<30 {
			// operand position of a pure prefix operator or head of a postfix form: the grammar
			// accepts only a postfix expression there, not another prefix operator
			need = true
		}
		if need || o.Full || (o.Extra != nil && o.Extra(n)) {
			paren(body)
		} else {
			body(follow)
		}
	case Call:
		t.renderPostfixHead(sb, n.A, o)
		t.renderArgs(sb, n.Args, "(", ")", o)
	case Index:
		t.renderPostfixHead(sb, n.A, o)
		sb.WriteByte('[')
		t.render(sb, n.B, -1, endPrio, o)
		sb.WriteByte(']')
	case Member:
		t.renderPostfixHead(sb, n.A, o)
		sb.WriteString("." + n.S)
	case Method:
		t.renderPostfixHead(sb, n.A, o)
		sb.WriteString("." + n.S)
		t.renderArgs(sb, n.Args, "(", ")", o)
	case If:
		// keyword forms extend as far to the right as possible: parenthesise unless nothing follows
		body := func(f int) {
			sb.WriteString("if ")
			t.render(sb, n.A, -1, endPrio, o)
			sb.WriteString(" then ")
			t.render(sb, n.B, -1, endPrio, o)
			sb.WriteString(" else ")
			t.render(sb, n.C, -1, f, o)
		}
		if follow != endPrio || min > -1 || o.Full {
			paren(body)
		} else {
			body(follow)
		}
	case Try:
		body := func(f int) {
			sb.WriteString("try ")
			t.render(sb, n.A, -1, endPrio, o)
			sb.WriteString(" catch ")
			t.render(sb, n.B, -1, f, o)
		}
		if follow != endPrio || min > -1 || o.Full {
			paren(body)
		} else {
			body(follow)
		}
	case Switch:
		body := func(f int) {
			sb.WriteString("switch ")
			t.render(sb, n.A, -1, endPrio, o)
			for i := 0; i+1 < len(n.Args); i += 2 {
				sb.WriteString(" case ")
				t.render(sb, n.Args[i], -1, endPrio, o)
				sb.WriteString(" : ")
				t.render(sb, n.Args[i+1], -1, endPrio, o)
			}
			sb.WriteString(" default ")
			t.render(sb, n.B, -1, f, o)
		}
		if follow != endPrio || min > -1 || o.Full {
			paren(body)
		} else {
			body(follow)
		}
	}
}

func (t *Table) renderPostfixHead(sb *strings.Builder, n *Node, o RenderOpts) {
	switch n.K {
	case Leaf, Call, Index, Member, Method, Paren:
		t.render(sb, n, 1<<30, endPrio, o)
	default:
		sb.WriteByte('(')
		t.render(sb, n, -1, endPrio, o)
		sb.WriteByte(')')
	}
}

func (t *Table) renderArgs(sb *strings.Builder, args []*Node, open, close string, o RenderOpts) {
	sb.WriteString(open)
	for i, a := range args {
		if i > 0 {
			sb.WriteString(",")
		}
		t.render(sb, a, -1, endPrio, o)
	}
	sb.WriteString(close)
}

// Enumerator produces all trees over a leaf set and operator sets by number of operator nodes.
type Enumerator struct {
	Leaves []*Node
	Bin    []string
	Un     []string
	// Funcs are unary function names: f(x) counts as one operator node.
	Funcs  []string
	levels [][]*Node
}

// Level returns (and memoises) all trees with exactly n operator nodes.
func (e *Enumerator) Level(n int) []*Node {
	for len(e.levels) <= n {
		k := len(e.levels)
		var out []*Node
		e.Each(k, func(t *Node) bool { out = append(out, t); return true })
		e.levels = append(e.levels, out)
	}
	return e.levels[n]
}

// Count returns the number of trees with exactly n operator nodes without materialising level n.
func (e *Enumerator) Count(n int) int64 {
	c := make([]int64, n+1)
	c[0] = int64(len(e.Leaves))
	for k := 1; k <= n; k++ {
		c[k] = int64(len(e.Un)+len(e.Funcs)) * c[k-1]
		for i := 0; i < k; i++ {
			c[k] += int64(len(e.Bin)) * c[i] * c[k-1-i]
		}
	}
	return c[n]
}

// Each streams all trees with exactly n operator nodes in a canonical order (levels below n are
// materialised and shared between trees).
func (e *Enumerator) Each(n int, yield func(*Node) bool) {
	if n == 0 {
		for _, l := range e.Leaves {
			if !yield(l) {
				return
			}
		}
		return
	}
	for _, u := range e.Un {
		for _, t := range e.Level(n - 1) {
			if !yield(&Node{K: Un, S: u, A: t}) {
				return
			}
		}
	}
	for _, f := range e.Funcs {
		for _, t := range e.Level(n - 1) {
			if !yield(&Node{K: Call, A: L(f), Args: []*Node{t}}) {
				return
			}
		}
	}
	for i := 0; i < n; i++ {
		ls, rs := e.Level(i), e.Level(n-1-i)
		for _, op := range e.Bin {
			for _, l := range ls {
				for _, r := range rs {
					if !yield(&Node{K: Bin, S: op, A: l, B: r}) {
						return
					}
				}
			}
		}
	}
}

func isDigit(c byte) bool  { return c >= '0' && c <= '9' }
func isLetter(c byte) bool { return c >= 'a' && c <= 'z' || c >= 'A' && c <= 'Z' || c == '_' }

// juxtaSep decides whether "l * r" may be written as a comfort-mode juxtaposition and with which
// separator: the left text must end in a number, identifier or ')', the right text must start with a
// number, identifier or '('. Text ending in a number like "0.5" followed by an identifier is fine
// tight ("0.5a"); identifier followed by '(' tight would be a call, so it gets the blank.
func juxtaSep(l, r string, mode int) (string, bool) {
	if l == "" || r == "" {
		return "", false
	}
	a, b := l[len(l)-1], r[0]
	// the last token of l must be a number / identifier / ')' token, not e.g. a keyword; callers only
	// use this with operator tables without keywords in operand position
	lNum, lId, lClose := false, false, a == ')'
	if isDigit(a) || isLetter(a) {
		// find the start of the last token
		i := len(l) - 1
		for i >= 0 && (isDigit(l[i]) || isLetter(l[i]) || l[i] == '.') {
			i--
		}
		tok := l[i+1:]
		if isDigit(tok[0]) {
			// "1b" is the number 1 followed by the identifier b
			j := 0
			for j < len(tok) && (isDigit(tok[j]) || tok[j] == '.') {
				j++
			}
			if j == len(tok) {
				lNum = true
			} else {
				lId = true
			}
		} else {
			lId = true
		}
	}
	rNum, rId, rOpen := isDigit(b), isLetter(b), b == '('
	if !(lNum || lId || lClose) || !(rNum || rId || rOpen) {
		return "", false
	}
	if mode == 1 {
		return " ", true
	}
	switch {
	case lClose:
		return "", true // ")(" ")a" ")2"
	case lNum && rOpen:
		return "", true // "2("
	case lNum && rId && b != 'e':
		return "", true // "2a"
	}
	return " ", true
}
