// Package vrun runs value-language programs on the implementation (package value of /repo) and
// converts arguments and results between the implementation's values and the reference values.
package vrun

import (
	"fmt"
	"strings"

	"github.com/hneemann/parser2/funcGen"
	"github.com/hneemann/parser2/listMap"
	"github.com/hneemann/parser2/value"
	"verif/internal/refsem"
)

// NewGen creates a value generator; opt=false removes the optimizer before first use.
func NewGen(opt bool, modify func(g *value.FunctionGenerator)) *value.FunctionGenerator {
	g := value.New()
	if modify != nil {
		modify(g)
	}
	if !opt {
		g.SetOptimizer(nil)
	}
	return g
}

// ToImpl converts a (forced, closure-free) reference value into an implementation value.
func ToImpl(v refsem.Val) value.Value {
	switch x := v.(type) {
	case refsem.IntV:
		return value.Int(x)
	case refsem.FloatV:
		return value.Float(x)
	case refsem.BoolV:
		return value.Bool(x)
	case refsem.StrV:
		return value.String(x.S)
	case *refsem.ListV:
		els, _ := x.Force()
		out := make([]value.Value, len(els))
		for i, e := range els {
			out[i] = ToImpl(e)
		}
		return value.NewList(out...)
	case *refsem.MapV:
		lm := listMap.New[value.Value](len(x.Keys))
		for i, k := range x.Keys {
			lm = lm.Append(k, ToImpl(x.Vals[i]))
		}
		return value.NewMap(lm)
	}
	panic(fmt.Sprintf("ToImpl: %T", v))
}

// ToRef converts an implementation value into a reference value, forcing every list (an error while
// forcing is the outcome of the observation). Panics of the library while forcing are returned as
// errors with panicked=true.
func ToRef(v value.Value) (r refsem.Val, err error, panicked bool) {
	defer func() {
		if rec := recover(); rec != nil {
			r, err, panicked = nil, fmt.Errorf("panic: %v", rec), true
		}
	}()
	r, err = toRef(v, 0)
	return
}

func toRef(v value.Value, depth int) (refsem.Val, error) {
	if depth > 50 {
		return nil, fmt.Errorf("value nested too deeply")
	}
	switch x := v.(type) {
	case nil:
		return nil, fmt.Errorf("nil value")
	case value.Int:
		return refsem.IntV(x), nil
	case value.Float:
		return refsem.FloatV(x), nil
	case value.Bool:
		return refsem.BoolV(x), nil
	case value.String:
		return refsem.StrV{S: string(x)}, nil
	case value.Closure:
		return &refsem.CloV{Arity: x.Args}, nil
	case *value.List:
		sl, err := x.ToSlice(funcGen.NewEmptyStack[value.Value]())
		if err != nil {
			return nil, err
		}
		out := make([]refsem.Val, len(sl))
		for i, e := range sl {
			out[i], err = toRef(e, depth+1)
			if err != nil {
				return nil, err
			}
		}
		return refsem.Eager(out), nil
	case value.Map:
		m := &refsem.MapV{}
		var ierr error
		x.Iter(func(k string, e value.Value) bool {
			r, err := toRef(e, depth+1)
			if err != nil {
				ierr = err
				return false
			}
			m.Keys = append(m.Keys, k)
			m.Vals = append(m.Vals, r)
			return true
		})
		if ierr != nil {
			return nil, ierr
		}
		return m, nil
	}
	return nil, fmt.Errorf("unsupported result type %T", v)
}

// Outcome of one evaluation on the implementation.
type Outcome struct {
	GenErr   bool   // Generate failed
	Err      bool   // evaluation (or forcing the result) failed
	Panicked bool   // the error came from a recovered Go panic
	Canon    string // canonical text of the forced value when !Err
	Msg      string // error text
	Val      refsem.Val
}

func (o Outcome) String() string {
	switch {
	case o.GenErr:
		return "generate-error: " + firstLine(o.Msg)
	case o.Err:
		return "error: " + firstLine(o.Msg)
	}
	return o.Canon
}

func firstLine(s string) string {
	if i := strings.IndexByte(s, '\n'); i >= 0 {
		s = s[:i]
	}
	if len(s) > 160 {
		s = s[:160] + "…"
	}
	return s
}

// Class is a coarse outcome class for statistics.
func (o Outcome) Class() string {
	switch {
	case o.GenErr:
		return "generate-error"
	case o.Panicked:
		return "error(panic)"
	case o.Err:
		return "error"
	}
	if o.Canon == "" {
		return "?"
	}
	switch o.Canon[0] {
	case 'i':
		return "int"
	case 'f':
		if o.Canon == "false" {
			return "bool"
		}
		return "float"
	case 't':
		return "bool"
	case 's':
		return "string"
	case '[':
		return "list"
	case '{':
		return "map"
	case 'c':
		return "closure"
	}
	return "?"
}

// Eval evaluates a generated function and observes the result.
func Eval(f funcGen.Func[value.Value], args []value.Value) (o Outcome) {
	defer func() {
		if rec := recover(); rec != nil {
			o = Outcome{Err: true, Panicked: true, Msg: fmt.Sprint(rec)}
		}
	}()
	v, err := f.Eval(args...)
	if err != nil {
		msg := err.Error()
		return Outcome{Err: true, Msg: msg, Panicked: isPanicMsg(msg)}
	}
	r, err, p := ToRef(v)
	if err != nil {
		return Outcome{Err: true, Msg: err.Error(), Panicked: p}
	}
	return Outcome{Canon: refsem.Canon(r), Val: r}
}

// isPanicMsg recognises errors that the top-level recover of a generated function produced from a Go
// runtime panic (used for statistics only).
func isPanicMsg(msg string) bool {
	return strings.HasPrefix(msg, "runtime error:") || strings.Contains(msg, "interface conversion") || strings.HasPrefix(msg, "stack overflow;")
}

// Run generates src with the argument names and evaluates it.
func Run(g *value.FunctionGenerator, src string, names []string, args []value.Value) Outcome {
	f, _, err := g.Generate(src, names...)
	if err != nil {
		return Outcome{GenErr: true, Err: true, Msg: err.Error()}
	}
	return Eval(f, args)
}
