// Package exptree is the value-tree generator shared by the export checks C17 (JSON) and C18
// (XML / HTML).
//
// A *Node is a pure description of a value of the parser2 value library (scalars, lists, maps, and
// for C18 the export wrappers Format / Link / File with their style values). It is independent of
// the library: the oracles of the checks are computed from the Node alone, the library only sees
// the value.Value that Builder.Build constructs from it. A Node is JSON-serialisable, so a failing
// case is replayed from its description.
//
// Every container node carries a representation number: the same abstract list / map is built in
// every concrete representation the public API (Go API and the expression language) can produce.
package exptree

import (
	"encoding/json"
	"errors"
	"fmt"
	"math"
	"strconv"
	"unicode/utf8"

	"github.com/hneemann/parser2/funcGen"
	"github.com/hneemann/parser2/listMap"
	"github.com/hneemann/parser2/value"
	"github.com/hneemann/parser2/value/export"
)

type Kind uint8

const (
	Str Kind = iota
	Int
	Float
	Bool
	List
	Map
	Format // export.Format: Kids[0] wrapped value, Style, Cell, ColSpan
	Link   // export.Link: S target, Kids[0] wrapped value
	File   // export.File: S name, Mime, Data
)

var kindNames = []string{"str", "int", "float", "bool", "list", "map", "format", "link", "file"}

func (k Kind) String() string { return kindNames[k] }

// Node describes one value.
type Node struct {
	K    Kind     `json:"k"`
	S    string   `json:"s,omitempty"`   // Str: the text; Link: target; File: name
	Num  string   `json:"n,omitempty"`   // Int: decimal; Float: shortest round-trip text ("NaN", "+Inf", "-0" …)
	B    bool     `json:"b,omitempty"`   // Bool
	Rep  int      `json:"rep,omitempty"` // List / Map / Format / Link: representation number
	Keys []string `json:"keys,omitempty"`
	Kids []*Node  `json:"kids,omitempty"`
	// Format
	Style   *Style `json:"style,omitempty"`
	Cell    bool   `json:"cell,omitempty"`
	ColSpan int    `json:"colspan,omitempty"`
	// File
	Mime string `json:"mime,omitempty"`
	Data int    `json:"data,omitempty"` // number of data bytes (content: i*7+1 mod 256)
	// list failure injection (C18 "ToHtml reports failures as errors"): the lazy producer yields an
	// error (FailAt = index+1) instead of that element; PanicAt likewise panics.
	FailAt  int `json:"failAt,omitempty"`
	PanicAt int `json:"panicAt,omitempty"`
}

type StyleKind uint8

const (
	SStr   StyleKind = iota + 1 // value.String(S)
	SMap                        // style map: Keys[i] -> Vals[i] (scalar nodes)
	SFunc                       // one-argument closure with behaviour Fn
	STable                      // style map with a "table" entry: Cells[name] -> style; own entries Keys/Vals
)

// Closure behaviours of a style closure.
const (
	FnLink  = "link"  // v -> Link{S, v}
	FnStyle = "style" // v -> Format{style S, v}
	FnConst = "const" // v -> String(S)
	FnErr   = "err"   // v -> error
	FnPanic = "panic" // v -> panic
	FnArgs2 = "args2" // a two-argument closure (not usable as style closure)
	FnCell3 = "cell3" // (row,col,v) -> Format{style S+row+col, v}: only meaningful as table cell format
)

type Style struct {
	K     StyleKind `json:"k"`
	S     string    `json:"s,omitempty"`
	Fn    string    `json:"fn,omitempty"`
	Keys  []string  `json:"keys,omitempty"`
	Vals  []*Node   `json:"vals,omitempty"`
	Cells []Cell    `json:"cells,omitempty"`
}

type Cell struct {
	Name  string `json:"name"` // "all", "r1", "c2", "r1c2"
	Style *Style `json:"style"`
}

// constructors
func S(s string) *Node               { return &Node{K: Str, S: s} }
func I(i int64) *Node                { return &Node{K: Int, Num: strconv.FormatInt(i, 10)} }
func F(f float64) *Node              { return &Node{K: Float, Num: strconv.FormatFloat(f, 'g', -1, 64)} }
func Bo(b bool) *Node                { return &Node{K: Bool, B: b} }
func L(rep int, kids ...*Node) *Node { return &Node{K: List, Rep: rep, Kids: kids} }
func M(rep int, keys []string, kids ...*Node) *Node {
	return &Node{K: Map, Rep: rep, Keys: keys, Kids: kids}
}
func Fmt(st *Style, cell bool, colspan int, v *Node) *Node {
	return &Node{K: Format, Style: st, Cell: cell, ColSpan: colspan, Kids: []*Node{v}}
}
func Lnk(target string, v *Node) *Node   { return &Node{K: Link, S: target, Kids: []*Node{v}} }
func Fil(name, mime string, n int) *Node { return &Node{K: File, S: name, Mime: mime, Data: n} }

func (n *Node) IntVal() int64 {
	i, err := strconv.ParseInt(n.Num, 10, 64)
	if err != nil {
		panic(err)
	}
	return i
}

func (n *Node) FloatVal() float64 {
	f, err := strconv.ParseFloat(n.Num, 64)
	if err != nil {
		panic(err)
	}
	return f
}

// IsScalar reports a node that the generic traversal exports through its string form.
func (n *Node) IsScalar() bool { return n.K <= Bool || n.K == File }

// FileData is the deterministic content of a File node.
func FileData(n int) []byte {
	b := make([]byte, n)
	for i := range b {
		b[i] = byte(i*7 + 1)
	}
	return b
}

// ScalarString is the string form of a scalar as the value library documents it (Int: decimal,
// Float: shortest representation that round-trips ('g'), Bool: true/false, File: "file NAME (N bytes)").
func (n *Node) ScalarString() string {
	switch n.K {
	case Str:
		return n.S
	case Int:
		return n.Num
	case Float:
		return strconv.FormatFloat(n.FloatVal(), 'g', -1, 64)
	case Bool:
		if n.B {
			return "true"
		}
		return "false"
	case File:
		return fmt.Sprintf("file %s (%d bytes)", n.S, n.Data)
	}
	panic("ScalarString of " + n.K.String())
}

// ToRepro converts a node to the generic form stored in a violation's repro.
func (n *Node) ToRepro() any {
	m := map[string]any{"k": int(n.K)}
	if n.S != "" {
		m["s"] = n.S
	}
	if n.Num != "" {
		m["n"] = n.Num
	}
	if n.B {
		m["b"] = true
	}
	if n.Rep != 0 {
		m["rep"] = n.Rep
	}
	if len(n.Keys) > 0 {
		l := make([]any, len(n.Keys))
		for i, k := range n.Keys {
			l[i] = k
		}
		m["keys"] = l
	}
	if len(n.Kids) > 0 {
		l := make([]any, len(n.Kids))
		for i, k := range n.Kids {
			l[i] = k.ToRepro()
		}
		m["kids"] = l
	}
	if n.Style != nil || n.Cell || n.ColSpan != 0 || n.Mime != "" || n.Data != 0 || n.FailAt != 0 || n.PanicAt != 0 {
		// rare fields: through the JSON encoding
		b, err := json.Marshal(n)
		if err != nil {
			panic(err)
		}
		var v map[string]any
		if err := json.Unmarshal(b, &v); err != nil {
			panic(err)
		}
		for _, f := range []string{"style", "cell", "colspan", "mime", "data", "failAt", "panicAt"} {
			if x, ok := v[f]; ok {
				m[f] = x
			}
		}
	}
	return m
}

// FromRepro is the inverse of ToRepro.
func FromRepro(v any) (*Node, error) {
	b, err := json.Marshal(v)
	if err != nil {
		return nil, err
	}
	var n Node
	if err := json.Unmarshal(b, &n); err != nil {
		return nil, err
	}
	return &n, nil
}

func (n *Node) String() string {
	b, _ := json.Marshal(n)
	return string(b)
}

// Clone makes a deep copy.
func (n *Node) Clone() *Node {
	if n == nil {
		return nil
	}
	c := *n
	c.Keys = append([]string(nil), n.Keys...)
	c.Kids = make([]*Node, len(n.Kids))
	for i, k := range n.Kids {
		c.Kids[i] = k.Clone()
	}
	c.Style = n.Style.Clone()
	return &c
}

func (s *Style) Clone() *Style {
	if s == nil {
		return nil
	}
	c := *s
	c.Keys = append([]string(nil), s.Keys...)
	c.Vals = make([]*Node, len(s.Vals))
	for i, k := range s.Vals {
		c.Vals[i] = k.Clone()
	}
	c.Cells = make([]Cell, len(s.Cells))
	for i, k := range s.Cells {
		c.Cells[i] = Cell{k.Name, k.Style.Clone()}
	}
	return &c
}

// MapStrings applies f to every string of the tree that reaches an exporter: string values, map
// keys, link targets, file names and mime types, style strings, style-map keys and values. role
// tells f where the string sits.
func (n *Node) MapStrings(f func(role string, s string) string) {
	switch n.K {
	case Str:
		n.S = f("text", n.S)
	case Link:
		n.S = f("link", n.S)
	case File:
		n.S = f("filename", n.S)
		n.Mime = f("mime", n.Mime)
	case Map:
		for i := range n.Keys {
			n.Keys[i] = f("key", n.Keys[i])
		}
	}
	if n.Style != nil {
		n.Style.mapStrings(f)
	}
	for _, k := range n.Kids {
		k.MapStrings(f)
	}
}

func (s *Style) mapStrings(f func(role string, s string) string) {
	switch s.K {
	case SStr:
		s.S = f("style", s.S)
	case SFunc:
		switch s.Fn {
		case FnLink:
			s.S = f("link", s.S)
		case FnStyle, FnCell3:
			s.S = f("style", s.S)
		case FnConst:
			s.S = f("text", s.S)
		}
	}
	for i := range s.Keys {
		s.Keys[i] = f("stylekey", s.Keys[i])
	}
	for _, v := range s.Vals {
		if v.K == Str {
			v.S = f("stylevalue", v.S)
		}
	}
	for _, c := range s.Cells {
		c.Style.mapStrings(f)
	}
}

// EachString calls f for every string MapStrings would visit.
func (n *Node) EachString(f func(role string, s string)) {
	n.MapStrings(func(role, s string) string { f(role, s); return s })
}

// Depth is the container nesting depth (a scalar has depth 0).
func (n *Node) Depth() int {
	d := 0
	for _, k := range n.Kids {
		if kd := k.Depth(); kd > d {
			d = kd
		}
	}
	if n.K == List || n.K == Map {
		return d + 1
	}
	return d
}

// ---------------------------------------------------------------------------------------------
// representations

// List representations.
const (
	LEager   = iota // value.NewList(items...)
	LLazy           // value.NewListFromIterable: size unknown, produced on every iteration
	LSized          // value.NewListFromSizedIterable
	LConvert        // value.NewListConvert over a Go slice
	LLibMap         // the expression `l.map(e->e)` evaluated on the eager list (the library's own lazy pipeline)
	LLibLit         // the expression `[a,b,…]` / `[]` evaluated with the items as arguments (≤ 3 items, else eager)
	NListReps
)

// LOfMaps (outside the rotation 0..NListReps-1): value.NewListOfMaps over Go structs through
// value.NewToMapReflection; only for lists whose elements are all maps {A: string} (else eager).
const LOfMaps = NListReps

var ListRepNames = []string{"eager", "lazy", "sized", "convert", "expr l.map(e->e)", "expr [a,b]"}

// Map representations.
const (
	MListMap  = iota // listMap.ListMap (what a map literal produces)
	MReal            // value.RealMap
	MAppend          // value.AppendMap chain: EmptyMap.PutM(k0,v0).PutM(k1,v1)…
	MMerge           // value.MergeMap of two listMaps (first half / second half) through Map.Merge
	MReplace         // value.ReplaceMap: placeholders replaced through Map.Replace
	MFunc            // value.NewFuncMapFactory(...).Create
	MToMap           // value.NewToMap[int]().Attr(...).Create (struct wrapper)
	MMixed           // MergeMap{AppendMap on RealMap, listMap}
	MExprPut         // expression `{}.put(k0,v0).put(k1,v1)`
	MExprPlus        // expression `a+b`
	MExprRepl        // expression `m.replace(x->r)`
	MExprEval        // expression `m.eval()`
	MExprMap         // expression `m.map((k,v)->v)`
	NMapReps
)

// MReflect (outside the rotation 0..NMapReps-1): value.NewToMapReflection[struct{A string}]; only
// for maps with the single key "A" and a string value (else the ToMap wrapper).
const MReflect = NMapReps

// ReflStruct is the Go struct behind MReflect / LOfMaps.
type ReflStruct struct{ A string }

var MapRepNames = []string{"listMap", "RealMap", "AppendMap", "MergeMap", "ReplaceMap", "funcMap", "ToMap wrapper", "Merge(Append(Real),listMap)",
	"expr {}.put()", "expr a+b", "expr m.replace()", "expr m.eval()", "expr m.map()"}

// Builder turns nodes into values of the library.
type Builder struct {
	FG    *value.FunctionGenerator
	progs map[string]funcGen.Func[value.Value]
}

func NewBuilder() *Builder {
	fg := value.New()
	export.AddHTMLStylingHelpers(fg)
	return &Builder{FG: fg, progs: map[string]funcGen.Func[value.Value]{}}
}

func (b *Builder) prog(src string, args ...string) funcGen.Func[value.Value] {
	if f, ok := b.progs[src]; ok {
		return f
	}
	f, _, err := b.FG.Generate(src, args...)
	if err != nil {
		panic(fmt.Sprintf("harness: program %q does not compile: %v", src, err))
	}
	b.progs[src] = f
	return f
}

func (b *Builder) eval(src string, argNames []string, args ...value.Value) (value.Value, error) {
	f := b.prog(src, argNames...)
	return f(funcGen.NewStack[value.Value](args...))
}

var ErrInjected = errors.New("injected producer failure")

// Build constructs the value.
func (b *Builder) Build(n *Node) (value.Value, error) {
	switch n.K {
	case Str:
		return value.String(n.S), nil
	case Int:
		return value.Int(n.IntVal()), nil
	case Float:
		return value.Float(n.FloatVal()), nil
	case Bool:
		return value.Bool(n.B), nil
	case File:
		return export.File{Name: n.S, MimeType: n.Mime, Data: FileData(n.Data)}, nil
	case Link:
		v, err := b.Build(n.Kids[0])
		if err != nil {
			return nil, err
		}
		if n.Rep == 1 {
			return b.eval("link(t,v)", []string{"t", "v"}, value.String(n.S), v)
		}
		return export.Link{Link: n.S, Value: v}, nil
	case Format:
		v, err := b.Build(n.Kids[0])
		if err != nil {
			return nil, err
		}
		var st value.Value
		if n.Style != nil {
			st, err = b.buildStyle(n.Style)
			if err != nil {
				return nil, err
			}
		}
		if n.Rep == 1 && st != nil {
			// through the helper functions registered by export.AddHTMLStylingHelpers
			fn := "style(s,v)"
			if n.Cell {
				fn = "styleCell(s,v)"
			}
			r, err := b.eval(fn, []string{"s", "v"}, st, v)
			if err != nil {
				return nil, err
			}
			if n.ColSpan != 0 {
				return b.eval("colspan(n,v)", []string{"n", "v"}, value.Int(n.ColSpan), r)
			}
			return r, nil
		}
		return export.Format{Value: v, Cell: n.Cell, ColSpan: n.ColSpan, Format: st}, nil
	case List:
		items := make([]value.Value, len(n.Kids))
		for i, k := range n.Kids {
			v, err := b.Build(k)
			if err != nil {
				return nil, err
			}
			items[i] = v
		}
		return b.buildList(n, items)
	case Map:
		if len(n.Keys) != len(n.Kids) {
			return nil, fmt.Errorf("harness: map node with %d keys and %d values", len(n.Keys), len(n.Kids))
		}
		vals := make([]value.Value, len(n.Kids))
		for i, k := range n.Kids {
			v, err := b.Build(k)
			if err != nil {
				return nil, err
			}
			vals[i] = v
		}
		return b.buildMap(n.Rep, n.Keys, vals)
	}
	return nil, fmt.Errorf("harness: unknown kind %d", n.K)
}

// listProducer builds a value.ListProducer without naming the types of the iterator module (which
// /verif's go.mod lists as an indirect dependency only): P and C are inferred from a sample.
func listProducer[P ~func(C), C ~func(value.Value, error) bool](_ P, f func(yield func(value.Value, error) bool)) func(funcGen.Stack[value.Value]) P {
	return func(funcGen.Stack[value.Value]) P {
		return P(func(y C) { f(func(v value.Value, e error) bool { return y(v, e) }) })
	}
}

func producer(n *Node, items []value.Value) value.ListProducer {
	sample := value.NewList().Iterate(funcGen.NewEmptyStack[value.Value]())
	return listProducer(sample, func(yield func(value.Value, error) bool) {
		for i, it := range items {
			if n.PanicAt == i+1 {
				panic("injected producer panic")
			}
			if n.FailAt == i+1 {
				yield(nil, ErrInjected)
				return
			}
			if !yield(it, nil) {
				return
			}
		}
	})
}

func (b *Builder) buildList(n *Node, items []value.Value) (value.Value, error) {
	rep := n.Rep
	if (n.FailAt != 0 || n.PanicAt != 0) && rep != LSized {
		rep = LLazy
	}
	if rep == LOfMaps {
		structs := make([]ReflStruct, len(items))
		for i, k := range n.Kids {
			if k.K != Map || len(k.Keys) != 1 || k.Keys[0] != "A" || k.Kids[0].K != Str {
				return value.NewList(items...), nil
			}
			structs[i] = ReflStruct{A: k.Kids[0].S}
		}
		return value.NewListOfMaps[ReflStruct](value.NewToMapReflection[ReflStruct](), structs), nil
	}
	switch rep {
	case LEager:
		return value.NewList(items...), nil
	case LLazy:
		return value.NewListFromIterable(producer(n, items)), nil
	case LSized:
		return value.NewListFromSizedIterable(producer(n, items), len(items)), nil
	case LConvert:
		idx := make([]int, len(items))
		for i := range idx {
			idx[i] = i
		}
		return value.NewListConvert(func(i int) (value.Value, error) { return items[i], nil }, idx), nil
	case LLibMap:
		return b.eval("l.map(e->e)", []string{"l"}, value.NewList(items...))
	case LLibLit:
		switch len(items) {
		case 0:
			return b.eval("[]", nil)
		case 1:
			return b.eval("[a]", []string{"a"}, items...)
		case 2:
			return b.eval("[a,b]", []string{"a", "b"}, items...)
		case 3:
			return b.eval("[a,b,c]", []string{"a", "b", "c"}, items...)
		}
		return value.NewList(items...), nil
	}
	return nil, fmt.Errorf("harness: unknown list representation %d", n.Rep)
}

func lm(keys []string, vals []value.Value) listMap.ListMap[value.Value] {
	m := listMap.New[value.Value](len(keys))
	for i, k := range keys {
		m = m.Append(k, vals[i])
	}
	return m
}

func constClosure(v value.Value) value.Closure {
	return value.Closure{Func: func(st funcGen.Stack[value.Value], cs []value.Value) (value.Value, error) { return v, nil }, Args: 1}
}

func (b *Builder) buildMap(rep int, keys []string, vals []value.Value) (value.Value, error) {
	n := len(keys)
	placeholders := func() []value.Value {
		p := make([]value.Value, n)
		for i := range p {
			p[i] = value.Int(0)
		}
		return p
	}
	putAll := func(m value.Map, keys []string, vals []value.Value) (value.Map, error) {
		for i, k := range keys {
			var err error
			m, err = m.PutM(funcGen.NewStack[value.Value](m, value.String(k), vals[i]))
			if err != nil {
				return m, err
			}
		}
		return m, nil
	}
	if rep == MReflect {
		if n == 1 && keys[0] == "A" {
			if str, ok := vals[0].(value.String); ok {
				return value.NewToMapReflection[ReflStruct]().Create(ReflStruct{A: string(str)})
			}
		}
		rep = MToMap
	}
	switch rep {
	case MListMap:
		return value.NewMap(lm(keys, vals)), nil
	case MReal:
		rm := value.RealMap{}
		for i, k := range keys {
			rm[k] = vals[i]
		}
		return value.NewMap(rm), nil
	case MAppend:
		return putAll(value.EmptyMap, keys, vals)
	case MMerge:
		h := (n + 1) / 2
		return value.NewMap(lm(keys[:h], vals[:h])).Merge(value.NewMap(lm(keys[h:], vals[h:])))
	case MReplace:
		orig := value.NewMap(lm(keys, placeholders()))
		return orig.Replace(funcGen.NewStack[value.Value](orig, constClosure(value.NewMap(lm(keys, vals)))))
	case MFunc:
		f := value.NewFuncMapFactory[value.Int](func(_ value.Int, key string) (value.Value, bool) {
			for i, k := range keys {
				if k == key {
					return vals[i], true
				}
			}
			return nil, false
		}, keys...)
		return f.Create(0), nil
	case MToMap:
		tm := value.NewToMap[int]()
		for i, k := range keys {
			v := vals[i]
			tm.Attr(k, func(int) value.Value { return v })
		}
		return tm.Create(0)
	case MMixed:
		h := n / 2
		rm := value.RealMap{}
		var a value.Map = value.NewMap(rm)
		if h > 0 {
			for i := 0; i < h-1; i++ {
				rm[keys[i]] = vals[i]
			}
			var err error
			a, err = putAll(a, keys[h-1:h], vals[h-1:h])
			if err != nil {
				return nil, err
			}
		}
		return a.Merge(value.NewMap(lm(keys[h:], vals[h:])))
	case MExprPut:
		var m value.Value = value.EmptyMap
		for i, k := range keys {
			var err error
			m, err = b.eval("m.put(k,v)", []string{"m", "k", "v"}, m, value.String(k), vals[i])
			if err != nil {
				return nil, err
			}
		}
		if n == 0 {
			return b.eval("{}", nil)
		}
		return m, nil
	case MExprPlus:
		h := (n + 1) / 2
		return b.eval("a+b", []string{"a", "b"}, value.NewMap(lm(keys[:h], vals[:h])), value.NewMap(lm(keys[h:], vals[h:])))
	case MExprRepl:
		return b.eval("m.replace(x->r)", []string{"m", "r"}, value.NewMap(lm(keys, placeholders())), value.NewMap(lm(keys, vals)))
	case MExprEval:
		return b.eval("m.eval()", []string{"m"}, value.NewMap(lm(keys, vals)))
	case MExprMap:
		return b.eval("m.map((k,v)->v)", []string{"m"}, value.NewMap(lm(keys, vals)))
	}
	return nil, fmt.Errorf("harness: unknown map representation %d", rep)
}

func (b *Builder) buildStyle(s *Style) (value.Value, error) {
	switch s.K {
	case SStr:
		return value.String(s.S), nil
	case SMap, STable:
		m := listMap.New[value.Value](len(s.Keys) + 1)
		for i, k := range s.Keys {
			v, err := b.Build(s.Vals[i])
			if err != nil {
				return nil, err
			}
			m = m.Append(k, v)
		}
		if s.K == STable {
			t := listMap.New[value.Value](len(s.Cells))
			for _, c := range s.Cells {
				v, err := b.buildStyle(c.Style)
				if err != nil {
					return nil, err
				}
				t = t.Append(c.Name, v)
			}
			m = m.Append("table", value.NewMap(t))
		}
		return value.NewMap(m), nil
	case SFunc:
		str := s.S
		switch s.Fn {
		case FnLink:
			return value.Closure{Args: 1, Func: func(st funcGen.Stack[value.Value], cs []value.Value) (value.Value, error) {
				return export.Link{Link: str, Value: st.Get(0)}, nil
			}}, nil
		case FnStyle:
			return value.Closure{Args: 1, Func: func(st funcGen.Stack[value.Value], cs []value.Value) (value.Value, error) {
				return export.Format{Format: value.String(str), Value: st.Get(0)}, nil
			}}, nil
		case FnConst:
			return value.Closure{Args: 1, Func: func(st funcGen.Stack[value.Value], cs []value.Value) (value.Value, error) {
				return value.String(str), nil
			}}, nil
		case FnErr:
			return value.Closure{Args: 1, Func: func(st funcGen.Stack[value.Value], cs []value.Value) (value.Value, error) {
				return nil, ErrInjected
			}}, nil
		case FnPanic:
			return value.Closure{Args: 1, Func: func(st funcGen.Stack[value.Value], cs []value.Value) (value.Value, error) {
				panic("injected closure panic")
			}}, nil
		case FnArgs2:
			return value.Closure{Args: 2, Func: func(st funcGen.Stack[value.Value], cs []value.Value) (value.Value, error) {
				return value.String("two-argument closure must never be called as a style"), nil
			}}, nil
		case FnCell3:
			return value.Closure{Args: 3, Func: func(st funcGen.Stack[value.Value], cs []value.Value) (value.Value, error) {
				r, _ := st.Get(0).(value.Int)
				c, _ := st.Get(1).(value.Int)
				return export.Format{Format: value.String(str + strconv.Itoa(int(r)) + strconv.Itoa(int(c))), Value: st.Get(2)}, nil
			}}, nil
		}
	}
	return nil, fmt.Errorf("harness: unknown style %+v", s)
}

// ---------------------------------------------------------------------------------------------
// alphabets

// JSONAlphabet is the trouble alphabet of C17 (DESIGN.md §5 C17; 'u' added so that "\u" forms).
var JSONAlphabet = []string{"a", `"`, "\\", "/", "\x00", "\x01", "\b", "\t", "\n", "\f", "\r", "\x1f", "\x7f", "\u0080", "\u00e9",
	"\u2028", "\u2029", "\ud7ff", "\ue000", "\ufffd", "\uffff", "\U00010000", "\U0010ffff", "u"}

// XMLAlphabet is the markup alphabet of C18 (DESIGN.md §5 C18), legal XML characters only.
var XMLAlphabet = []string{"a", "<", ">", "&", "'", `"`, "]]>", "<!--", "-->", "<![CDATA[", "&amp;", "&#65;", "=", " ", "a b",
	"\t", "\n", "\r", "\u00e9", "xmlns", "1a", "/", "-", "\U00010000", "?>", "<a/>",
	// Latin-1 characters around the XML name classes: µ is a Unicode letter but no XML name character,
	// · is a name character that may not start a name, × sits between the two letter ranges
	"\u00b5", "\u00b7", "\u00d7"}

// Strings returns every string of at most max symbols over the alphabet, shortest first.
func Strings(alpha []string, max int) []string {
	out := []string{""}
	prev := []string{""}
	for l := 1; l <= max; l++ {
		var cur []string
		for _, p := range prev {
			for _, a := range alpha {
				cur = append(cur, p+a)
			}
		}
		out = append(out, cur...)
		prev = cur
	}
	return out
}

// Dedup removes repeated strings keeping the first occurrence (multi-character symbols can make
// two symbol sequences spell the same string).
func Dedup(l []string) []string {
	seen := map[string]bool{}
	out := l[:0:0]
	for _, s := range l {
		if !seen[s] {
			seen[s] = true
			out = append(out, s)
		}
	}
	return out
}

// LegalXML reports that s consists of characters of the XML 1.0 Char production only.
func LegalXML(s string) bool {
	if !utf8.ValidString(s) {
		return false
	}
	for _, r := range s {
		if !(r == 0x9 || r == 0xA || r == 0xD || r >= 0x20 && r <= 0xD7FF || r >= 0xE000 && r <= 0xFFFD || r >= 0x10000 && r <= 0x10FFFF) {
			return false
		}
	}
	return true
}

// Scalars is the pool of non-string scalars.
func Scalars() []*Node {
	return []*Node{I(0), I(5), I(-1), I(math.MaxInt64), I(math.MinInt64), Bo(true), Bo(false),
		F(0), F(math.Copysign(0, -1)), F(1.5), F(-0.25), F(1e21), F(1e-7), F(123456789.125), F(math.MaxFloat64), F(math.SmallestNonzeroFloat64),
		F(math.Inf(1)), F(math.Inf(-1)), F(math.NaN())}
}

// ---------------------------------------------------------------------------------------------
// shapes

// Shape is a tree skeleton: leaf classes, container kinds and wrapper variants, no concrete strings
// or representations.
type Shape struct {
	K    Kind // Str (string leaf), Int/Float/Bool (non-string scalar leaf), File, List, Map, Format, Link
	W    int  // Format / Link: wrapper variant (W* constants)
	Kids []*Shape
}

// Wrapper variants (C18). Strings come from Pools.Strs.
const (
	WLink      = iota // Link{target s, v}
	WStyle            // Format{style string s, v}
	WStyleCell        // Format{style string s, Cell, v}
	WStyleMap         // Format{style map {s1: s2, font_size: 3}, v}
	WFuncLink         // Format{style closure v -> Link{s, v}, v}
	WPlainList        // Format{style "plainList", v}
	WColSpan          // Format{no style, ColSpan 2, v}
	WFuncStyle        // Format{style closure v -> Format{style s, v}, v}
	WFuncConst        // Format{style closure v -> String(s), v}
	WPlainMap         // Format{style map {plainList: 1, s1: s2}, v}
	WTableAll         // Format{style map {table: {all: s}}, v}
	WTableCell        // Format{style map {table: {r1c1: s1, c2: closure3 s2}}, v}
	NWrappers
)

var WrapperNames = []string{"link", "style", "styleCell", "style map", "style closure->link", "plainList", "colspan", "style closure->style",
	"style closure->const", "style map with plainList", "table format all", "table format r1c1/c2"}

// ShapeSpace enumerates all shapes of height <= H with at most two children per container over the
// given leaf kinds and unary wrapper variants, simplest first. A wrapper counts as one level.
type ShapeSpace struct {
	Leaves   []Kind
	Wrappers []int
	levels   [][]*Shape // levels[h] = all shapes of height <= h (materialised up to H-1)
}

// Level returns all shapes of height <= h (materialised).
func (sp *ShapeSpace) Level(h int) []*Shape {
	for len(sp.levels) <= h {
		k := len(sp.levels)
		var out []*Shape
		sp.each(k, func(s *Shape) bool { out = append(out, s); return true })
		sp.levels = append(sp.levels, out)
	}
	return sp.levels[h]
}

// Count returns the number of shapes of height <= h.
func (sp *ShapeSpace) Count(h int) int64 {
	n := int64(len(sp.Leaves))
	for i := 1; i <= h; i++ {
		n = int64(len(sp.Leaves)) + int64(len(sp.Wrappers))*n + 2*(1+n+n*n)
	}
	return n
}

// Each enumerates all shapes of height <= h without materialising the top level.
func (sp *ShapeSpace) Each(h int, fn func(*Shape) bool) { sp.each(h, fn) }

func wrapKind(w int) Kind {
	if w == WLink {
		return Link
	}
	return Format
}

func (sp *ShapeSpace) each(h int, fn func(*Shape) bool) {
	for _, l := range sp.Leaves {
		if !fn(&Shape{K: l}) {
			return
		}
	}
	if h == 0 {
		return
	}
	sub := sp.Level(h - 1)
	for _, k := range []Kind{List, Map} {
		if !fn(&Shape{K: k}) {
			return
		}
	}
	// ordered by the larger child index, so that small children come first
	for m := 0; m < len(sub); m++ {
		for _, k := range []Kind{List, Map} {
			if !fn(&Shape{K: k, Kids: []*Shape{sub[m]}}) {
				return
			}
		}
		for _, w := range sp.Wrappers {
			if !fn(&Shape{K: wrapKind(w), W: w, Kids: []*Shape{sub[m]}}) {
				return
			}
		}
		for j := 0; j <= m; j++ {
			for _, k := range []Kind{List, Map} {
				if !fn(&Shape{K: k, Kids: []*Shape{sub[j], sub[m]}}) {
					return
				}
				if j != m {
					if !fn(&Shape{K: k, Kids: []*Shape{sub[m], sub[j]}}) {
						return
					}
				}
			}
		}
	}
}

// Pools hands concrete strings, keys and scalars to Instantiate.
type Pools struct {
	Strs []string
	Keys []string
	// SimpleKeys, if set, are the keys of maps none of whose values is a list, map or Format (the
	// maps the XML exporter writes in attribute form); Keys are then used for the other maps only.
	SimpleKeys []string
	Scalars    []*Node
	// MapReps / ListReps limit the representations used (nil = all).
	MapReps, ListReps []int
}

// Instantiate turns a shape into a node: the j-th node in preorder takes string / scalar / key /
// representation number (j + variant) of its pool, so that running variant over 0..n-1 puts every
// pool element at every position.
func (p *Pools) Instantiate(s *Shape, variant int) *Node {
	j := 0
	return p.inst(s, variant, &j)
}

func (p *Pools) str(i int) string { return p.Strs[i%len(p.Strs)] }

func (p *Pools) inst(s *Shape, variant int, j *int) *Node {
	me := *j + variant
	*j++
	switch s.K {
	case Str:
		return S(p.str(me))
	case Int, Float, Bool:
		return p.Scalars[me%len(p.Scalars)].Clone()
	case File:
		mime := []string{"text/plain", "", p.str(me + 3)}[me%3]
		return Fil(p.str(me), mime, (me%3)*5)
	case Link:
		return &Node{K: Link, S: p.str(me), Rep: me % 2, Kids: []*Node{p.inst(s.Kids[0], variant, j)}}
	case Format:
		n := &Node{K: Format, Rep: me % 2}
		s1, s2 := p.str(me), p.str(me+1)
		switch s.W {
		case WStyle:
			n.Style = &Style{K: SStr, S: s1}
		case WStyleCell:
			n.Style = &Style{K: SStr, S: s1}
			n.Cell = true
		case WStyleMap:
			n.Style = &Style{K: SMap, Keys: []string{"k" + s1, "font_size"}, Vals: []*Node{S(s2), I(3)}}
		case WFuncLink:
			n.Style = &Style{K: SFunc, Fn: FnLink, S: s1}
		case WPlainList:
			n.Style = &Style{K: SStr, S: "plainList"}
		case WColSpan:
			n.ColSpan = 2
		case WFuncStyle:
			n.Style = &Style{K: SFunc, Fn: FnStyle, S: s1}
		case WFuncConst:
			n.Style = &Style{K: SFunc, Fn: FnConst, S: s1}
		case WPlainMap:
			n.Style = &Style{K: SMap, Keys: []string{"plainList", "k" + s1}, Vals: []*Node{I(1), S(s2)}}
		case WTableAll:
			n.Style = &Style{K: STable, Cells: []Cell{{"all", &Style{K: SStr, S: s1}}}}
		case WTableCell:
			n.Style = &Style{K: STable, Keys: []string{"color"}, Vals: []*Node{S(s2)},
				Cells: []Cell{{"r1c1", &Style{K: SStr, S: s1}}, {"c2", &Style{K: SFunc, Fn: FnCell3, S: s2}}}}
		default:
			panic("unknown wrapper variant")
		}
		n.Kids = []*Node{p.inst(s.Kids[0], variant, j)}
		return n
	case List:
		rep := me % NListReps
		if p.ListReps != nil {
			rep = p.ListReps[me%len(p.ListReps)]
		}
		n := &Node{K: List, Rep: rep}
		for _, k := range s.Kids {
			n.Kids = append(n.Kids, p.inst(k, variant, j))
		}
		return n
	case Map:
		rep := me % NMapReps
		if p.MapReps != nil {
			rep = p.MapReps[me%len(p.MapReps)]
		}
		n := &Node{K: Map, Rep: rep}
		keys := p.Keys
		if p.SimpleKeys != nil {
			simple := true
			for _, k := range s.Kids {
				u := k
				for u.K == Format || u.K == Link {
					u = u.Kids[0]
				}
				if k.K == Format || u.K == List || u.K == Map {
					simple = false
				}
			}
			if simple {
				keys = p.SimpleKeys
			}
		}
		for i, k := range s.Kids {
			key := keys[(me*2+i)%len(keys)]
			for d := 1; i > 0 && key == n.Keys[0]; d++ {
				key = keys[(me*2+i+d)%len(keys)]
			}
			n.Keys = append(n.Keys, key)
			n.Kids = append(n.Kids, p.inst(k, variant, j))
		}
		return n
	}
	panic("inst")
}

// Chains returns every sequence of list / map kinds of length 1..max, shortest first.
func Chains(max int) [][]Kind {
	var out [][]Kind
	prev := [][]Kind{nil}
	for l := 1; l <= max; l++ {
		var cur [][]Kind
		for _, p := range prev {
			for _, k := range []Kind{List, Map} {
				cur = append(cur, append(append([]Kind(nil), p...), k))
			}
		}
		out = append(out, cur...)
		prev = cur
	}
	return out
}

// Deepen puts s below len(chain) further containers (chain[0] outermost). Every added container
// holds a string leaf followed by the deeper tree, so that a separator precedes the nested value.
func Deepen(s *Shape, chain []Kind) *Shape {
	for i := len(chain) - 1; i >= 0; i-- {
		s = &Shape{K: chain[i], Kids: []*Shape{{K: Str}, s}}
	}
	return s
}
