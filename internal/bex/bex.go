// Package bex is the bounded-exhaustive exploration driver shared by all checks under /verif.
//
// A check binary (cmd/cXX) calls bex.Main(check). Started without --worker it is the orchestrator:
// it starts one worker subprocess per shard (default: one per CPU), merges their counters, matches
// failing cases against /verif/known_findings.json, writes /verif/evidence/<id>.json and prints the
// VIOLATION / KNOWN-FINDING lines of the interface. Started with --worker it enumerates its shard of
// the check's finite spaces and writes a JSON result file. A worker that dies (fatal stack overflow,
// panic on a foreign goroutine, OOM) is re-run in journal mode to pinpoint the case: a crash is a
// verdict of the check, not an infrastructure error.
package bex

import (
	"encoding/json"
	"flag"
	"fmt"
	"hash/fnv"
	"io"
	"log"
	"os"
	"os/exec"
	"path/filepath"
	"runtime"
	"sort"
	"strconv"
	"strings"
	"sync"
	"sync/atomic"
	"time"
)

// Violation is one failing case.
type Violation struct {
	Property string         `json:"property"`
	Space    string         `json:"space"`
	What     string         `json:"what"`
	Repro    map[string]any `json:"repro"`
	Expected string         `json:"expected,omitempty"`
	Got      string         `json:"got,omitempty"`
	Finding  string         `json:"finding,omitempty"` // id of the classifier that matched, "" if none
}

// SpaceStat describes one enumerated space.
type SpaceStat struct {
	Cases     int64  `json:"cases"`
	Completed bool   `json:"completed"`
	Bound     string `json:"bound,omitempty"`
	Note      string `json:"note,omitempty"`
}

// Result is what one worker reports.
type Result struct {
	Shard       int                   `json:"shard"`
	Evaluations int64                 `json:"evaluations"`
	Nontrivial  int64                 `json:"nontrivial"`
	Outcomes    map[string]int64      `json:"outcomes"`
	Samples     []any                 `json:"samples"`
	Spaces      map[string]*SpaceStat `json:"spaces"`
	Counters    map[string]int64      `json:"counters"`
	Violations  []Violation           `json:"violations"`
	NViolations int64                 `json:"n_violations"`
	FindingHits map[string]int64      `json:"finding_hits"`
	Expired     bool                  `json:"expired"`
	Unspecified map[string]int64      `json:"unspecified"`
	Done        bool                  `json:"done"`
}

// Ctx is handed to Check.Run in a worker.
type Ctx struct {
	Tier    string
	Shard   int
	NShards int
	Seed    int64
	// Coop is true in a worker of the controlled-scheduler build (see Check.CoopWorkers).
	Coop bool
	// Race is true in a worker of the -race build (see Check.RaceWorkers).
	Race      bool
	raceOff   int64
	lastBegin atomic.Int64

	res       Result
	seen      map[uint64]struct{}
	expired   atomic.Bool
	journal   string
	maxViol   int
	check     *Check
	vioSeen   map[string]int
	curSpace  string
	lastRepro func() map[string]any
	skip      map[string]bool
}

// Check describes one property check.
type Check struct {
	ID          string
	Level       string // "exploration" or "model_checking"
	Rule        string
	Assumptions []string
	// Budget is the enumeration time per tier (workers stop at a case boundary when it ends and the
	// run reports exhaustive:false). Zero means 60 s quick / 20 min thorough.
	QuickBudget, ThoroughBudget time.Duration
	Workers                     int // 0 = NumCPU
	// Run enumerates the shard ctx.Shard of ctx.NShards.
	Run func(ctx *Ctx)
	// Replay re-executes one recorded case and returns (observation, stillFails).
	Replay func(repro map[string]any) (string, bool)
	// ClassifyCrash names the known-finding classifier matching a worker crash on the journaled case.
	ClassifyCrash func(repro map[string]any) string
	// CrashIsViolation is false for checks whose property says nothing about crashes.
	CrashIsViolation bool
	// Extra lets a check add keys to evidence coverage (called in the orchestrator after merging).
	Extra func(merged *Result, coverage map[string]any)
	// MemLimitMB limits each worker's address space (ulimit -v); 0 = 8192.
	MemLimitMB int
	// CoopWorkers > 0: that many additional workers are started from the executable "<self>-coop"
	// (the same check built against the controlled-scheduler instrumentation); they run with
	// ctx.Coop == true and shard among themselves.
	CoopWorkers int
	// RaceWorkers > 0: that many additional workers are started from the executable "<self>-race" (the
	// same check built with `go build -race`: real goroutines, free running). They run with
	// ctx.Race == true; the Go race detector's reports are written to a log that ctx.RaceReports reads.
	// This is the separate free-running pass that sees ALL memory, i.e. also locations the controlled
	// scheduler's hooks do not cover; a report is always a true positive.
	RaceWorkers int
	// HangSeconds > 0: a worker in which no case begins for that long (ctx.Begin is the heartbeat)
	// exits with a HANG verdict for the journaled case.
	HangSeconds int
}

func (c *Ctx) Quick() bool { return c.Tier == "quick" }

// Mine reports whether case number i of a space belongs to this shard.
func (c *Ctx) Mine(i int64) bool { return int(i%int64(c.NShards)) == c.Shard }

// Expired reports that the time budget has ended; enumeration loops must stop at a case boundary.
func (c *Ctx) Expired() bool { return c.expired.Load() }

// Space starts accounting for a named space.
func (c *Ctx) Space(name string) {
	c.curSpace = name
	if c.res.Spaces[name] == nil {
		c.res.Spaces[name] = &SpaceStat{}
	}
}

// SpaceDone marks the current space as completely enumerated by this shard (unless expired).
func (c *Ctx) SpaceDone(bound string) {
	s := c.res.Spaces[c.curSpace]
	s.Completed = !c.Expired()
	s.Bound = bound
}

// Eval counts one evaluated case of the current space.
func (c *Ctx) Eval() {
	c.res.Evaluations++
	c.res.Spaces[c.curSpace].Cases++
}

// EvalN counts n evaluations.
func (c *Ctx) EvalN(n int64) {
	c.res.Evaluations += n
	c.res.Spaces[c.curSpace].Cases += n
}

// Nontrivial records a distinct non-trivial case by key.
func (c *Ctx) Nontrivial(key string) {
	h := fnv.New64a()
	h.Write([]byte(key))
	k := h.Sum64()
	if _, ok := c.seen[k]; !ok {
		c.seen[k] = struct{}{}
		c.res.Nontrivial++
	}
}

// NontrivialH is Nontrivial for a pre-hashed key.
func (c *Ctx) NontrivialH(k uint64) {
	if _, ok := c.seen[k]; !ok {
		c.seen[k] = struct{}{}
		c.res.Nontrivial++
	}
}

// Outcome counts an outcome class (keep the number of classes small).
func (c *Ctx) Outcome(class string) {
	if len(c.res.Outcomes) < 4096 {
		c.res.Outcomes[class]++
	} else if _, ok := c.res.Outcomes[class]; ok {
		c.res.Outcomes[class]++
	}
}

// Sample keeps the first few cases verbatim for the evidence file.
func (c *Ctx) Sample(v any) {
	if len(c.res.Samples) < 6 {
		c.res.Samples = append(c.res.Samples, v)
	}
}

// WantSample reports whether Sample would still keep a value (avoid rendering otherwise).
func (c *Ctx) WantSample() bool { return len(c.res.Samples) < 6 }

// Add adds to a named counter (states, transitions, …).
func (c *Ctx) Add(counter string, n int64) { c.res.Counters[counter] += n }

// Max keeps the maximum of a named counter.
func (c *Ctx) Max(counter string, n int64) {
	if c.res.Counters[counter] < n {
		c.res.Counters[counter] = n
	}
}

// Unspecified counts a case excluded from the oracle because the specification is silent.
func (c *Ctx) Unspecified(why string) { c.res.Unspecified[why]++ }

// Begin journals the case about to be executed (only in journal mode, after a worker crash).
//
// It returns false if the case must be skipped: it killed this shard's worker in an earlier attempt
// of this run (the orchestrator has recorded that as a verdict and restarts the shard without it).
func (c *Ctx) Begin(repro func() map[string]any) bool {
	c.lastBegin.Store(time.Now().UnixNano())
	if len(c.skip) > 0 {
		b, _ := json.Marshal(repro())
		if c.skip[string(b)] {
			return false
		}
	}
	if c.check.HangSeconds > 0 {
		c.lastRepro = repro
	}
	if c.journal == "" {
		return true
	}
	b, _ := json.Marshal(map[string]any{"space": c.curSpace, "repro": repro()})
	os.WriteFile(c.journal, b, 0644)
	return true
}

// RaceReports returns the text the Go race detector has written since the last call ("" if none).
// Only meaningful in a worker of the -race build (GORACE=log_path is set by the orchestrator).
func (c *Ctx) RaceReports() string {
	base := os.Getenv("VERIF_RACE_LOG")
	if base == "" {
		return ""
	}
	b, err := os.ReadFile(fmt.Sprintf("%s.%d", base, os.Getpid()))
	if err != nil || int64(len(b)) <= c.raceOff {
		return ""
	}
	out := string(b[c.raceOff:])
	c.raceOff = int64(len(b))
	return out
}

// Journaling reports whether Begin records cases.
func (c *Ctx) Journaling() bool { return c.journal != "" }

// Violate records a failing case. finding is the id of the known-finding classifier that matches
// this case ("" if none).
func (c *Ctx) Violate(what string, repro map[string]any, expected, got, finding string) {
	c.res.NViolations++
	if finding != "" {
		c.res.FindingHits[finding]++
	}
	key := finding
	if key == "" {
		key = "?" + what
	}
	nv := Violation{Property: c.check.ID, Space: c.curSpace, What: what, Repro: repro, Expected: expected, Got: got, Finding: finding}
	// keep at most 3 per finding / kind and 40 in total: the smallest ones
	if c.vioSeen[key] >= 3 || len(c.res.Violations) >= 40 {
		worst, wl := -1, reproLen(nv)
		for i, v := range c.res.Violations {
			k := v.Finding
			if k == "" {
				k = "?" + v.What
			}
			if k == key {
				if l := reproLen(v); l > wl {
					worst, wl = i, l
				}
			}
		}
		if worst >= 0 {
			c.res.Violations[worst] = nv
		}
		return
	}
	c.vioSeen[key]++
	c.res.Violations = append(c.res.Violations, nv)
}

// ---------------------------------------------------------------------------------------------

type knownFinding struct {
	ID       string `json:"id"`
	Property string `json:"property"`
	// Properties lists further properties whose checks meet the same defect.
	Properties  []string `json:"properties,omitempty"`
	Status      string   `json:"status"` // known | fixed
	Signature   string   `json:"signature"`
	Witness     string   `json:"witness"`
	Description string   `json:"description"`
	Commit      string   `json:"commit,omitempty"`
}

func (k knownFinding) appliesTo(id string) bool {
	if k.Property == id {
		return true
	}
	for _, p := range k.Properties {
		if p == id {
			return true
		}
	}
	return false
}

func root() string {
	if r := os.Getenv("VERIF_ROOT"); r != "" {
		return r
	}
	return "/verif"
}

func loadKnown() map[string]knownFinding {
	m := map[string]knownFinding{}
	b, err := os.ReadFile(filepath.Join(root(), "known_findings.json"))
	if err != nil {
		return m
	}
	var l struct {
		Findings []knownFinding `json:"findings"`
	}
	if err := json.Unmarshal(b, &l); err != nil {
		fmt.Fprintln(os.Stderr, "known_findings.json:", err)
		os.Exit(2)
	}
	for _, k := range l.Findings {
		m[k.ID] = k
	}
	return m
}

// Main is the entry point of every check binary.
func Main(check *Check) {
	tier := flag.String("tier", envOr("VERIF_TIER", "quick"), "quick|thorough")
	worker := flag.String("worker", "", "i/N (internal)")
	out := flag.String("out", "", "result file (internal)")
	journal := flag.String("journal", "", "journal file (internal)")
	deadline := flag.Float64("deadline", 0, "seconds (internal)")
	replay := flag.String("replay", "", "replay file")
	nworkers := flag.Int("workers", 0, "number of worker processes")
	budget := flag.Float64("budget", 0, "override enumeration budget in seconds")
	coop := flag.Bool("coop", false, "worker of the controlled-scheduler build (internal)")
	raceB := flag.Bool("racebuild", false, "worker of the -race build (internal)")
	skipFile := flag.String("skip", "", "file with cases to skip, one JSON repro per line (internal)")
	flag.Parse()
	log.SetOutput(io.Discard)
	seed, _ := strconv.ParseInt(envOr("VERIF_SEED", "0"), 10, 64)

	if *replay != "" {
		os.Exit(doReplay(check, *replay, *coop))
	}
	if *worker != "" {
		var i, n int
		fmt.Sscanf(*worker, "%d/%d", &i, &n)
		runWorker(check, *tier, i, n, seed, *out, *journal, *deadline, *coop, *skipFile, *raceB)
		return
	}
	os.Exit(orchestrate(check, *tier, seed, *nworkers, *budget))
}

func envOr(k, d string) string {
	if v := os.Getenv(k); v != "" {
		return v
	}
	return d
}

func newCtx(check *Check, tier string, i, n int, seed int64) *Ctx {
	return &Ctx{Tier: tier, Shard: i, NShards: n, Seed: seed, check: check, seen: map[uint64]struct{}{}, vioSeen: map[string]int{},
		res: Result{Shard: i, Outcomes: map[string]int64{}, Spaces: map[string]*SpaceStat{}, Counters: map[string]int64{},
			FindingHits: map[string]int64{}, Unspecified: map[string]int64{}}}
}

func runWorker(check *Check, tier string, i, n int, seed int64, out, journal string, deadline float64, coop bool, skipFile string, race bool) {
	ctx := newCtx(check, tier, i, n, seed)
	ctx.journal = journal
	ctx.Coop = coop
	ctx.Race = race
	if skipFile != "" {
		if b, err := os.ReadFile(skipFile); err == nil {
			ctx.skip = map[string]bool{}
			for _, l := range strings.Split(string(b), "\n") {
				if l != "" {
					ctx.skip[l] = true
				}
			}
		}
	}
	if check.HangSeconds > 0 {
		ctx.lastBegin.Store(time.Now().UnixNano())
		go func() {
			for {
				time.Sleep(2 * time.Second)
				if time.Since(time.Unix(0, ctx.lastBegin.Load())) > time.Duration(check.HangSeconds)*time.Second {
					// the case that began last never finished: journal it and give up on this shard
					if journal != "" && ctx.lastRepro != nil {
						b, _ := json.Marshal(map[string]any{"space": ctx.curSpace, "repro": ctx.lastRepro()})
						os.WriteFile(journal, b, 0644)
					}
					fmt.Fprintf(os.Stderr, "HANG: no case finished for %d s\n", check.HangSeconds)
					os.Exit(7)
				}
			}
		}()
	}
	if deadline > 0 {
		time.AfterFunc(time.Duration(deadline*float64(time.Second)), func() { ctx.expired.Store(true) })
	}
	check.Run(ctx)
	ctx.res.Expired = ctx.Expired()
	ctx.res.Done = true
	b, err := json.Marshal(&ctx.res)
	if err != nil {
		fmt.Fprintln(os.Stderr, "marshal:", err)
		os.Exit(3)
	}
	if err := os.WriteFile(out, b, 0644); err != nil {
		fmt.Fprintln(os.Stderr, "write:", err)
		os.Exit(3)
	}
}

func orchestrate(check *Check, tier string, seed int64, nworkers int, budgetOverride float64) int {
	t0 := time.Now()
	n := check.Workers
	if nworkers > 0 {
		n = nworkers
	}
	if n <= 0 {
		n = runtime.NumCPU()
	}
	budget := check.QuickBudget
	if tier == "thorough" {
		budget = check.ThoroughBudget
	}
	if budget == 0 {
		budget = 60 * time.Second
		if tier == "thorough" {
			budget = 20 * time.Minute
		}
	}
	if budgetOverride > 0 {
		budget = time.Duration(budgetOverride * float64(time.Second))
	}
	mem := check.MemLimitMB
	if mem == 0 {
		mem = 8192
	}
	tmp := filepath.Join(root(), "build", "run", check.ID+"-"+strconv.Itoa(os.Getpid()))
	os.MkdirAll(tmp, 0755)
	defer os.RemoveAll(tmp)
	self, _ := os.Executable()

	nc := check.CoopWorkers
	coopExe := self + "-coop"
	if nc > 0 {
		if _, err := os.Stat(coopExe); err != nil {
			fmt.Printf("BUILD-FAILED: %s is missing (cannot decide on this tree)\n", coopExe)
			return 2
		}
	}
	nr := check.RaceWorkers
	raceExe := self + "-race"
	if nr > 0 {
		if _, err := os.Stat(raceExe); err != nil {
			fmt.Printf("BUILD-FAILED: %s is missing (cannot decide on this tree)\n", raceExe)
			return 2
		}
	}
	total := n + nc + nr
	results := make([]*Result, total)
	var wg sync.WaitGroup
	launch := func(slot int, journal bool, skipFile string) (res *Result, exitErr error, jfile string) {
		exe, shard, of, extra := self, slot, n, []string{}
		var extraEnv []string
		if slot >= n+nc {
			exe, shard, of, extra = raceExe, slot-n-nc, nr, []string{"--racebuild"}
			rl := filepath.Join(tmp, fmt.Sprintf("race-%d", slot))
			extraEnv = []string{"GORACE=log_path=" + rl + " halt_on_error=0 history_size=3", "VERIF_RACE_LOG=" + rl, "GOMAXPROCS=4"}
		} else if slot >= n {
			exe, shard, of, extra = coopExe, slot-n, nc, []string{"--coop"}
		}
		outFile := filepath.Join(tmp, fmt.Sprintf("res-%d.json", slot))
		os.Remove(outFile)
		// the journal re-run writes a file per case and is much slower: it gets four times the budget, so that
		// it reaches the case that killed the first run also on a slow machine
		dl := budget.Seconds()
		if journal {
			dl *= 4
		}
		args := append([]string{"--tier", tier, "--worker", fmt.Sprintf("%d/%d", shard, of), "--out", outFile, "--deadline", fmt.Sprintf("%f", dl)}, extra...)
		if journal {
			jfile = filepath.Join(tmp, fmt.Sprintf("journal-%d.json", slot))
			os.Remove(jfile)
			args = append(args, "--journal", jfile)
		}
		if _, err := os.Stat(skipFile); err == nil {
			args = append(args, "--skip", skipFile)
		}
		// ulimit -v protects the sandbox from a runaway evaluation; output of the library under test
		// (log.Print, one stray fmt.Println) goes to a per-worker log file.
		sh := fmt.Sprintf("ulimit -v %d; exec \"$0\" \"$@\"", mem*1024)
		cmd := exec.Command("bash", append([]string{"-c", sh, exe}, args...)...)
		lf, _ := os.Create(filepath.Join(tmp, fmt.Sprintf("log-%d.txt", slot)))
		cmd.Stdout, cmd.Stderr = lf, lf
		cmd.Env = append(append(os.Environ(), "GOMAXPROCS=2", fmt.Sprintf("VERIF_SEED=%d", seed)), extraEnv...)
		exitErr = cmd.Run()
		lf.Close()
		b, err := os.ReadFile(outFile)
		if err == nil {
			var r Result
			if json.Unmarshal(b, &r) == nil && r.Done {
				res = &r
			}
		}
		return
	}
	crashList := make([][]*Violation, total)
	for i := 0; i < total; i++ {
		wg.Add(1)
		go func(i int) {
			defer wg.Done()
			skipFile := filepath.Join(tmp, fmt.Sprintf("skip-%d.txt", i))
			for attempt := 0; attempt < 6; attempt++ {
				res, err, _ := launch(i, false, skipFile)
				if res != nil {
					results[i] = res
					return
				}
				// crashed: re-run in journal mode to pinpoint the case
				res, err2, jf := launch(i, true, skipFile)
				if res != nil && res.Expired {
					// the re-run ran out of time before it reached the case: nothing can be said about it in this
					// run (the shard counts as not exhausted); never an alarm without a case that was re-executed
					results[i] = res
					fmt.Fprintf(os.Stderr, "bex: worker %d crashed (%v); the journal re-run hit its deadline before reaching the case: shard incomplete\n", i, err)
					return
				}
				if res != nil {
					// not reproducible: report as a crash without a case
					results[i] = res
					crashList[i] = append(crashList[i], &Violation{Property: check.ID, Space: "?", What: fmt.Sprintf("worker crashed (%v) but the re-run in journal mode completed", err),
						Repro: map[string]any{"log": tailFile(filepath.Join(tmp, fmt.Sprintf("log-%d.txt", i)))}})
					return
				}
				var j struct {
					Space string         `json:"space"`
					Repro map[string]any `json:"repro"`
				}
				b, _ := os.ReadFile(jf)
				json.Unmarshal(b, &j)
				what := fmt.Sprintf("worker process died (%v) while executing this case", err2)
				if ee, ok := err2.(*exec.ExitError); ok && ee.ExitCode() == 7 {
					what = fmt.Sprintf("worker hung: this case did not finish within %d s", check.HangSeconds)
				}
				v := &Violation{Property: check.ID, Space: j.Space, What: what, Repro: j.Repro,
					Got: tailFile(filepath.Join(tmp, fmt.Sprintf("log-%d.txt", i)))}
				if check.ClassifyCrash != nil && j.Repro != nil {
					v.Finding = check.ClassifyCrash(j.Repro)
				}
				crashList[i] = append(crashList[i], v)
				if j.Repro == nil {
					return
				}
				// restart the shard without the case that killed it
				rb, _ := json.Marshal(j.Repro)
				fh, _ := os.OpenFile(skipFile, os.O_APPEND|os.O_CREATE|os.O_WRONLY, 0644)
				fh.Write(append(rb, '\n'))
				fh.Close()
			}
		}(i)
	}
	wg.Wait()

	merged := newCtx(check, tier, 0, n, seed).res
	exhaustive := true
	var viol []Violation
	infra := false
	for i, r := range results {
		for _, c := range crashList[i] {
			if check.CrashIsViolation {
				viol = append(viol, *c)
				merged.NViolations++
				if c.Finding != "" {
					merged.FindingHits[c.Finding]++
				}
			} else {
				fmt.Printf("INFRASTRUCTURE: worker %d crashed: %s %v\n", i, c.What, c.Repro)
				infra = true
			}
			// a pinpointed crash that is a listed finding is a verdict on that one case; the shard was
			// restarted behind it (a shard that could not be finished has r == nil below)
			if c.Finding == "" {
				exhaustive = false
			}
		}
		if r == nil {
			exhaustive = false
			continue
		}
		merged.Evaluations += r.Evaluations
		merged.Nontrivial += r.Nontrivial
		merged.NViolations += r.NViolations
		for k, v := range r.Outcomes {
			merged.Outcomes[k] += v
		}
		for k, v := range r.Counters {
			if strings.HasPrefix(k, "max_") {
				if merged.Counters[k] < v {
					merged.Counters[k] = v
				}
			} else {
				merged.Counters[k] += v
			}
		}
		for k, v := range r.FindingHits {
			merged.FindingHits[k] += v
		}
		for k, v := range r.Unspecified {
			merged.Unspecified[k] += v
		}
		for k, s := range r.Spaces {
			m := merged.Spaces[k]
			if m == nil {
				m = &SpaceStat{Completed: true, Bound: s.Bound, Note: s.Note}
				merged.Spaces[k] = m
			}
			m.Cases += s.Cases
			m.Completed = m.Completed && s.Completed
			if !s.Completed {
				exhaustive = false
			}
		}
		if r.Expired {
			exhaustive = false
		}
		viol = append(viol, r.Violations...)
		if len(merged.Samples) < 8 {
			for _, s := range r.Samples {
				if len(merged.Samples) < 8 && (i < 4 || len(merged.Samples) < 4) {
					merged.Samples = append(merged.Samples, s)
					break
				}
			}
		}
	}
	if len(merged.Samples) == 0 {
		for _, r := range results {
			if r != nil {
				merged.Samples = append(merged.Samples, r.Samples...)
			}
		}
	}

	// classify against known findings
	known := loadKnown()
	sort.SliceStable(viol, func(i, j int) bool { return reproLen(viol[i]) < reproLen(viol[j]) })
	printedKnown := map[string]bool{}
	exit := 0
	nNew := 0
	replayDir := filepath.Join(root(), "replays", check.ID)
	os.RemoveAll(replayDir) // replay files of earlier runs are stale
	newSeen := map[string]int{}
	for _, v := range viol {
		if k, ok := known[v.Finding]; ok && v.Finding != "" && k.Status == "known" && k.appliesTo(check.ID) {
			if !printedKnown[v.Finding] {
				printedKnown[v.Finding] = true
				fmt.Printf("KNOWN-FINDING: property=%s %s: %s [witness %s]\n", check.ID, k.ID, k.Description, compact(v.Repro))
			}
			continue
		}
		key := v.Finding + "|" + v.What
		newSeen[key]++
		if newSeen[key] > 2 || nNew >= 12 {
			continue
		}
		nNew++
		os.MkdirAll(replayDir, 0755)
		p := filepath.Join(replayDir, fmt.Sprintf("%d.json", nNew))
		b, _ := json.MarshalIndent(v, "", " ")
		os.WriteFile(p, b, 0644)
		fmt.Printf("VIOLATION property=%s replay=%s\n", check.ID, p)
		fmt.Printf("  what: %s\n  case: %s\n  expected: %s\n  got: %s\n  classifier: %q\n", v.What, compact(v.Repro), trunc(v.Expected, 300), trunc(v.Got, 300), v.Finding)
		exit = 1
	}
	for id, hits := range merged.FindingHits {
		if k, ok := known[id]; ok && k.Status == "known" && !printedKnown[id] && hits > 0 && k.appliesTo(check.ID) {
			// hits whose verbatim case was dropped by the per-worker cap
			printedKnown[id] = true
			fmt.Printf("KNOWN-FINDING: property=%s %s: %s\n", check.ID, k.ID, k.Description)
		}
	}
	if infra {
		exit = 2
	}

	// evidence
	cov := map[string]any{
		"evaluations":         merged.Evaluations,
		"distinct_nontrivial": merged.Nontrivial,
		"rule":                check.Rule,
		"samples":             merged.Samples,
		"exhaustive":          exhaustive,
		"spaces":              merged.Spaces,
		"distinct_outcomes":   len(merged.Outcomes),
		"workers":             n,
		"coop_workers":        nc,
		"race_workers":        nr,
		"budget_s":            budget.Seconds(),
	}
	if len(merged.Outcomes) <= 40 {
		cov["outcomes"] = merged.Outcomes
	}
	for k, v := range merged.Counters {
		cov[k] = v
	}
	if len(merged.Unspecified) > 0 {
		cov["unspecified_excluded"] = merged.Unspecified
	}
	kf := map[string]int64{}
	for id, hits := range merged.FindingHits {
		if k, ok := known[id]; ok && k.Status == "known" && k.appliesTo(check.ID) {
			kf[id] = hits
		}
	}
	cov["known_findings_hit"] = kf
	if check.Extra != nil {
		check.Extra(&merged, cov)
	}
	ev := map[string]any{
		"property_id": check.ID,
		"tier":        tier,
		"seed":        seed,
		"level":       check.Level,
		"coverage":    cov,
		"assumptions": check.Assumptions,
		"wall_s":      time.Since(t0).Seconds(),
		"violations":  nNew,
	}
	os.MkdirAll(filepath.Join(root(), "evidence"), 0755)
	b, _ := json.MarshalIndent(ev, "", " ")
	os.WriteFile(filepath.Join(root(), "evidence", check.ID+".json"), b, 0644)
	fmt.Printf("%s tier=%s evaluations=%d distinct_nontrivial=%d outcomes=%d exhaustive=%v violations=%d known_hits=%v wall=%.1fs\n",
		check.ID, tier, merged.Evaluations, merged.Nontrivial, len(merged.Outcomes), exhaustive, nNew, kf, time.Since(t0).Seconds())
	names := make([]string, 0, len(merged.Spaces))
	for k := range merged.Spaces {
		names = append(names, k)
	}
	sort.Strings(names)
	for _, k := range names {
		s := merged.Spaces[k]
		fmt.Printf("  space %-28s cases=%-10d completed=%-5v %s\n", k, s.Cases, s.Completed, s.Bound)
	}
	return exit
}

func reproLen(v Violation) int {
	b, _ := json.Marshal(v.Repro)
	return len(b)
}

func compact(m map[string]any) string {
	b, _ := json.Marshal(m)
	return trunc(string(b), 400)
}

func trunc(s string, n int) string {
	if len(s) > n {
		return s[:n] + "…"
	}
	return s
}

func tailFile(p string) string {
	b, _ := os.ReadFile(p)
	if len(b) > 1500 {
		// keep head (the fatal error line) and a bit of the tail
		return string(b[:1000]) + "\n…\n" + string(b[len(b)-400:])
	}
	return string(b)
}

// ReplayCoop tells a check's Replay function that it runs in the controlled-scheduler build.
var ReplayCoop bool

func doReplay(check *Check, path string, coop bool) int {
	ReplayCoop = coop
	b, err := os.ReadFile(path)
	if err != nil {
		fmt.Println(err)
		return 2
	}
	var v Violation
	if err := json.Unmarshal(b, &v); err != nil {
		fmt.Println(err)
		return 2
	}
	// cases found by a worker of the controlled-scheduler build are replayed by that build
	if check.CoopWorkers > 0 && !coop {
		plain, _ := v.Repro["plain"].(bool)
		part, _ := v.Repro["part"].(string)
		if c, ok := v.Repro["coop"].(bool); (ok && c) || part == "coop" || (!ok && !plain && check.Level == "model_checking") {
			self, _ := os.Executable()
			cmd := exec.Command(self+"-coop", "--coop", "--replay", path)
			cmd.Stdout, cmd.Stderr = os.Stdout, os.Stderr
			if err := cmd.Run(); err != nil {
				if ee, ok := err.(*exec.ExitError); ok {
					return ee.ExitCode()
				}
				return 2
			}
			return 0
		}
	}
	if check.Replay == nil {
		fmt.Println("no replay for", check.ID)
		return 2
	}
	obs, fails := check.Replay(v.Repro)
	fmt.Printf("replay %s: case=%s\n  expected: %s\n  observed: %s\n  still failing: %v\n", path, compact(v.Repro), v.Expected, obs, fails)
	if fails {
		return 1
	}
	return 0
}
