package vlang

// Typed, size-bounded, exhaustive enumeration of value-language programs ("tier A" of C01/C02/C16).
// Every program is well-scoped and never redeclares a name inside one function body (the exclusion of
// the properties); sorts keep most programs error-free so that values, not only error-ness, are
// compared. Recursion only occurs in the bounded-descent template
//     func f(p) if p<1 then BASE else STEP      with the leaf f(p-1) available inside STEP
// so every generated program terminates.

type Sort uint8

const (
	SI  Sort = iota // int
	SB              // bool
	SL              // list of int
	SF1             // closure int -> int
	SF2             // closure (int,int) -> int
	SFF             // closure int -> (closure int -> int)
	SM              // map {k:int}
	SMF             // map {k:int, f:(int,int)->int}
	nSorts
)

type binding struct {
	name  string
	sort  Sort
	frame int
}

type recInfo struct {
	fname, pname string
}

// Scope is the static environment of a hole.
type Scope struct {
	vars       []binding
	frame      int
	frameNames []string
	rec        *recInfo
	nextFrame  *int
}

// NewScope creates the top-level scope with the given arguments.
func NewScope(args map[string]Sort, order []string) *Scope {
	nf := 1
	sc := &Scope{nextFrame: &nf}
	for _, n := range order {
		sc.vars = append(sc.vars, binding{n, args[n], 0})
		sc.frameNames = append(sc.frameNames, n)
	}
	return sc
}

func (s *Scope) visible(name string) (binding, bool) {
	for i := len(s.vars) - 1; i >= 0; i-- {
		if s.vars[i].name == name {
			return s.vars[i], true
		}
	}
	return binding{}, false
}

func (s *Scope) inFrame(name string) bool {
	for _, n := range s.frameNames {
		if n == name {
			return true
		}
	}
	return false
}

// withLet extends the current frame.
func (s *Scope) withLet(name string, sort Sort) *Scope {
	n := *s
	n.vars = append(append([]binding{}, s.vars...), binding{name, sort, s.frame})
	n.frameNames = append(append([]string{}, s.frameNames...), name)
	if s.rec != nil && (name == s.rec.fname || name == s.rec.pname) {
		n.rec = nil
	}
	return &n
}

// withFrame opens a new function frame with parameters.
func (s *Scope) withFrame(params []string, sorts []Sort) *Scope {
	n := *s
	*s.nextFrame++
	n.frame = *s.nextFrame
	n.vars = append([]binding{}, s.vars...)
	n.frameNames = nil
	for i, p := range params {
		n.vars = append(n.vars, binding{p, sorts[i], n.frame})
		n.frameNames = append(n.frameNames, p)
		if s.rec != nil && (p == s.rec.fname || p == s.rec.pname) {
			n.rec = nil
		}
	}
	return &n
}

var pool = []string{"x", "y", "z", "u", "v", "w", "r", "s", "t", "c", "d", "g", "h", "o", "x1", "x2", "x3", "x4", "x5", "x6", "x7", "x8"}

// newNames returns the candidate names for a new binder: the first pool name not visible anywhere
// (fresh), and — if there is one — the innermost visible name that is not declared in the current
// frame (shadowing across a function boundary). avoid lists names that must not be chosen.
func (s *Scope) newNames(avoid ...string) []string {
	bad := func(n string) bool {
		for _, a := range avoid {
			if a == n {
				return true
			}
		}
		return false
	}
	var out []string
	for _, p := range pool {
		if _, vis := s.visible(p); !vis && !s.inFrame(p) && !bad(p) {
			out = append(out, p)
			break
		}
	}
	for i := len(s.vars) - 1; i >= 0; i-- {
		n := s.vars[i].name
		if !s.inFrame(n) && !bad(n) {
			out = append(out, n)
			break
		}
	}
	return out
}

// Enum configures the enumeration.
type Enum struct {
	// Statics that may be called: subset of {"min","max","throw"}.
	Statics []string
	// IntLeaves are the integer literals.
	IntLeaves []int64
	// Ops are the int-valued binary operators, CmpOps the bool-valued ones.
	Ops, CmpOps []string
	// LetSorts are the sorts a let may bind.
	LetSorts []Sort
	// UnaryStatics are host functions int -> int (e.g. counting functions) that may be called.
	UnaryStatics []string
	// Features switches.
	NoSwitch, NoTry, NoFunc, NoRec, NoMaps, NoLists, NoCurry bool
}

func DefaultEnum() *Enum {
	return &Enum{Statics: []string{"min", "throw"}, IntLeaves: []int64{1, 2}, Ops: []string{"+", "*"}, CmpOps: []string{"=", "<"},
		LetSorts: []Sort{SI, SL, SF1, SF2, SM, SMF, SFF}}
}

type yieldFn func(*Node) bool

// Gen yields every term of the sort with exactly n nodes. It returns false if the consumer stopped.
func (e *Enum) Gen(sort Sort, n int, sc *Scope, lpos bool, yield yieldFn) bool {
	if n <= 0 {
		return true
	}
	// variables
	if n == 1 {
		seen := map[string]bool{}
		for i := len(sc.vars) - 1; i >= 0; i-- {
			b := sc.vars[i]
			if seen[b.name] {
				continue
			}
			seen[b.name] = true
			if b.sort == sort {
				if !yield(V(b.name)) {
					return false
				}
			}
		}
	}
	// let / func in L-positions, any result sort restricted to SI to bound the space
	if lpos && sort == SI && n >= 3 {
		for _, ls := range e.LetSorts {
			for i := 1; i <= n-2; i++ {
				for _, name := range sc.newNames() {
					ok := e.Gen(ls, i, sc, false, func(v *Node) bool {
						return e.Gen(SI, n-1-i, sc.withLet(name, ls), true, func(b *Node) bool {
							return yield(LetN(name, v, b))
						})
					})
					if !ok {
						return false
					}
				}
			}
		}
		if !e.NoFunc {
			// func f(p) BODY; REST   and   func f(p,q) BODY; REST
			for _, fname := range sc.newNames() {
				for arity := 1; arity <= 2; arity++ {
					fs := SF1
					if arity == 2 {
						fs = SF2
					}
					for i := 1; i <= n-2; i++ {
						inner := sc.withLet(fname, fs) // f is declared in the enclosing frame
						// parameters: the body does not see f (a non-recursive func), so that every
						// generated program terminates
						var paramSets [][]string
						for _, p := range sc.newNames(fname) {
							if arity == 1 {
								paramSets = append(paramSets, []string{p})
							} else {
								for _, q := range sc.newNames(fname, p) {
									if q != p {
										paramSets = append(paramSets, []string{p, q})
										break
									}
								}
							}
						}
						for _, ps := range paramSets {
							sorts := []Sort{SI, SI}[:arity]
							bodySc := sc.withFrame(ps, sorts)
							bodySc.rec = nil
							ok := e.Gen(SI, i, bodySc, true, func(fb *Node) bool {
								return e.Gen(SI, n-1-i, inner, true, func(rest *Node) bool {
									return yield(FuncN(fname, ps, fb, rest))
								})
							})
							if !ok {
								return false
							}
						}
					}
					if e.NoRec || arity != 1 {
						continue
					}
					// recursive template: func f(p) if p<1 then BASE else STEP; REST  (5 fixed nodes + BASE + STEP + REST)
					for _, p := range sc.newNames(fname)[:1] {
						inner := sc.withLet(fname, SF1)
						bodySc := sc.withFrame([]string{p}, []Sort{SI})
						bodySc.rec = &recInfo{fname, p}
						baseSc := *bodySc
						baseSc.rec = nil
						for bi := 1; bi <= n-7; bi++ {
							for si := 1; si <= n-6-bi; si++ {
								ri := n - 5 - bi - si
								if ri < 1 {
									continue
								}
								ok := e.Gen(SI, bi, &baseSc, true, func(base *Node) bool {
									return e.Gen(SI, si, bodySc, true, func(step *Node) bool {
										// the template only makes sense if STEP really recurses
										if !usesRec(step, fname) {
											return true
										}
										return e.Gen(SI, ri, inner, true, func(rest *Node) bool {
											body := IfN(Op("<", V(p), I(1)), base, step)
											return yield(FuncN(fname, []string{p}, body, rest))
										})
									})
								})
								if !ok {
									return false
								}
							}
						}
					}
				}
			}
		}
	}
	switch sort {
	case SI:
		return e.genInt(n, sc, lpos, yield)
	case SB:
		if n == 1 {
			return yield(Bo(true))
		}
		for _, op := range e.CmpOps {
			if !e.bin(SI, SI, n-1, sc, func(a, b *Node) bool { return yield(Op(op, a, b)) }) {
				return false
			}
		}
		return true
	case SL:
		if e.NoLists {
			return true
		}
		// list literal with 1..2 elements
		if n >= 2 {
			if !e.Gen(SI, n-1, sc, true, func(a *Node) bool { return yield(ListN(a)) }) {
				return false
			}
			if !e.binL(SI, SI, n-1, sc, true, true, func(a, b *Node) bool { return yield(ListN(a, b)) }) {
				return false
			}
			// l.map(f), l.append(i)
			if !e.binL(SL, SF1, n-1, sc, false, true, func(l, f *Node) bool { return yield(MethodN(l, "map", f)) }) {
				return false
			}
			if !e.binL(SL, SI, n-1, sc, false, true, func(l, i *Node) bool { return yield(MethodN(l, "append", i)) }) {
				return false
			}
		}
		return true
	case SF1:
		if n >= 2 {
			for _, p := range sc.newNames() {
				if !e.Gen(SI, n-1, sc.withFrame([]string{p}, []Sort{SI}), true, func(b *Node) bool { return yield(LamN([]string{p}, b)) }) {
					return false
				}
			}
			if !e.NoCurry {
				if !e.binL(SFF, SI, n-1, sc, false, true, func(f, a *Node) bool { return yield(CallN(f, a)) }) {
					return false
				}
			}
		}
		return true
	case SF2:
		if n >= 2 {
			for _, p := range sc.newNames() {
				for _, q := range sc.newNames(p) {
					if q == p {
						continue
					}
					if !e.Gen(SI, n-1, sc.withFrame([]string{p, q}, []Sort{SI, SI}), true, func(b *Node) bool { return yield(LamN([]string{p, q}, b)) }) {
						return false
					}
					break
				}
			}
		}
		return true
	case SFF:
		if e.NoCurry {
			return true
		}
		if n >= 3 {
			for _, p := range sc.newNames() {
				if !e.Gen(SF1, n-1, sc.withFrame([]string{p}, []Sort{SI}), true, func(b *Node) bool { return yield(LamN([]string{p}, b)) }) {
					return false
				}
			}
		}
		return true
	case SM:
		if e.NoMaps {
			return true
		}
		if n >= 2 {
			return e.Gen(SI, n-1, sc, true, func(a *Node) bool { return yield(MapN([]string{"k"}, a)) })
		}
		return true
	case SMF:
		if e.NoMaps {
			return true
		}
		if n >= 4 {
			return e.binL(SI, SF2, n-1, sc, true, true, func(a, f *Node) bool { return yield(MapN([]string{"k", "f"}, a, f)) })
		}
		return true
	}
	return true
}

func usesRec(n *Node, fname string) bool {
	found := false
	Walk(n, func(x *Node) {
		if x.K == Call && x.A.K == Var && x.A.S == fname {
			found = true
		}
	})
	return found
}

// bin yields all pairs with sizes i + j = total, both in expression positions.
func (e *Enum) bin(sa, sb Sort, total int, sc *Scope, yield func(a, b *Node) bool) bool {
	return e.binL(sa, sb, total, sc, false, false, yield)
}

func (e *Enum) binL(sa, sb Sort, total int, sc *Scope, la, lb bool, yield func(a, b *Node) bool) bool {
	for i := 1; i < total; i++ {
		ok := e.Gen(sa, i, sc, la, func(a *Node) bool {
			return e.Gen(sb, total-i, sc, lb, func(b *Node) bool { return yield(a, b) })
		})
		if !ok {
			return false
		}
	}
	return true
}

func (e *Enum) tri(sa, sb, scn Sort, total int, sc *Scope, la, lb, lc bool, yield func(a, b, c *Node) bool) bool {
	for i := 1; i <= total-2; i++ {
		for j := 1; j <= total-1-i; j++ {
			k := total - i - j
			ok := e.Gen(sa, i, sc, la, func(a *Node) bool {
				return e.Gen(sb, j, sc, lb, func(b *Node) bool {
					return e.Gen(scn, k, sc, lc, func(c *Node) bool { return yield(a, b, c) })
				})
			})
			if !ok {
				return false
			}
		}
	}
	return true
}

func (e *Enum) hasStatic(name string) bool {
	for _, s := range e.Statics {
		if s == name {
			return true
		}
	}
	return false
}

func (e *Enum) genInt(n int, sc *Scope, lpos bool, yield yieldFn) bool {
	if n == 1 {
		for _, v := range e.IntLeaves {
			if !yield(I(v)) {
				return false
			}
		}
		return true
	}
	// recursive call leaf f(p-1): 4 nodes (call, f, -, p, 1 → count as call+var+bin+var+int = 5)
	if n == 5 && sc.rec != nil {
		if !yield(CallN(V(sc.rec.fname), Op("-", V(sc.rec.pname), I(1)))) {
			return false
		}
	}
	if !e.Gen(SI, n-1, sc, false, func(a *Node) bool { return yield(Neg(a)) }) {
		return false
	}
	for _, op := range e.Ops {
		if !e.bin(SI, SI, n-1, sc, func(a, b *Node) bool { return yield(Op(op, a, b)) }) {
			return false
		}
	}
	// if
	if !e.tri(SB, SI, SI, n-1, sc, false, true, true, func(c, t, f *Node) bool { return yield(IfN(c, t, f)) }) {
		return false
	}
	// application
	if !e.binL(SF1, SI, n-1, sc, false, true, func(f, a *Node) bool { return yield(CallN(f, a)) }) {
		return false
	}
	if !e.tri(SF2, SI, SI, n-1, sc, false, true, true, func(f, a, b *Node) bool { return yield(CallN(f, a, b)) }) {
		return false
	}
	if !e.NoLists {
		if !e.bin(SL, SI, n-1, sc, func(l, i *Node) bool { return yield(IndexN(l, i)) }) {
			return false
		}
		for _, m := range []string{"sum", "size"} {
			if !e.Gen(SL, n-1, sc, false, func(l *Node) bool { return yield(MethodN(l, m)) }) {
				return false
			}
		}
		if !e.binL(SL, SF2, n-1, sc, false, true, func(l, f *Node) bool { return yield(MethodN(l, "reduce", f)) }) {
			return false
		}
	}
	if !e.NoMaps {
		for _, ms := range []Sort{SM, SMF} {
			if !e.Gen(ms, n-1, sc, false, func(m *Node) bool { return yield(MemberN(m, "k")) }) {
				return false
			}
		}
		if !e.tri(SMF, SI, SI, n-1, sc, false, true, true, func(m, a, b *Node) bool { return yield(MethodN(m, "f", a, b)) }) {
			return false
		}
	}
	for _, st := range []string{"min", "max"} {
		if e.hasStatic(st) {
			if !e.binL(SI, SI, n-1, sc, true, true, func(a, b *Node) bool { return yield(StaticN(st, a, b)) }) {
				return false
			}
		}
	}
	for _, st := range e.UnaryStatics {
		if !e.Gen(SI, n-1, sc, true, func(a *Node) bool { return yield(StaticN(st, a)) }) {
			return false
		}
	}
	if e.hasStatic("throw") && n == 2 {
		if !yield(StaticN("throw", S("e"))) {
			return false
		}
	}
	if !e.NoTry {
		if !e.binL(SI, SI, n-1, sc, true, true, func(t, c *Node) bool { return yield(TryN(t, c)) }) {
			return false
		}
		// catch closure ignoring the message
		if n >= 4 {
			for _, p := range sc.newNames()[:1] {
				for i := 1; i <= n-3; i++ {
					ok := e.Gen(SI, i, sc, true, func(t *Node) bool {
						return e.Gen(SI, n-2-i, sc.withFrame([]string{p}, []Sort{nSorts}), true, func(b *Node) bool {
							return yield(TryN(t, LamN([]string{p}, b)))
						})
					})
					if !ok {
						return false
					}
				}
			}
		}
	}
	if !e.NoSwitch && n >= 5 {
		// switch v case c: r default d
		total := n - 1
		for i := 1; i <= total-3; i++ {
			for j := 1; j <= total-2-i; j++ {
				for k := 1; k <= total-1-i-j; k++ {
					l := total - i - j - k
					ok := e.Gen(SI, i, sc, false, func(v *Node) bool {
						return e.Gen(SI, j, sc, false, func(c *Node) bool {
							return e.Gen(SI, k, sc, true, func(r *Node) bool {
								return e.Gen(SI, l, sc, true, func(d *Node) bool {
									return yield(SwitchN(v, d, c, r))
								})
							})
						})
					})
					if !ok {
						return false
					}
				}
			}
		}
	}
	return true
}

// NewAttrScope creates a top-level scope whose names are NOT stack arguments but attributes of an
// implicit map (GenerateWithMap): they are visible everywhere, and — unlike arguments — may be
// shadowed by a top-level let.
func NewAttrScope(attrs map[string]Sort, order []string) *Scope {
	nf := 1
	sc := &Scope{nextFrame: &nf}
	for _, n := range order {
		sc.vars = append(sc.vars, binding{n, attrs[n], -1})
	}
	return sc
}

// SubstFree returns a copy of n in which every free occurrence of a name in attrs (one not bound by
// an enclosing let, func, closure parameter) is replaced by repl(name).
func SubstFree(n *Node, attrs map[string]bool, repl func(name string) *Node) *Node {
	return substFree(n, attrs, repl, nil)
}

func substFree(n *Node, attrs map[string]bool, repl func(string) *Node, bound []string) *Node {
	if n == nil {
		return nil
	}
	isBound := func(s string) bool {
		for _, b := range bound {
			if b == s {
				return true
			}
		}
		return false
	}
	c := *n
	switch n.K {
	case Var:
		if attrs[n.S] && !isBound(n.S) {
			return repl(n.S)
		}
		return &c
	case Let:
		c.A = substFree(n.A, attrs, repl, bound)
		c.B = substFree(n.B, attrs, repl, append(append([]string{}, bound...), n.S))
		return &c
	case Func:
		inner := append(append([]string{}, bound...), n.S)
		c.A = substFree(n.A, attrs, repl, append(append([]string{}, inner...), n.Params...))
		c.B = substFree(n.B, attrs, repl, inner)
		return &c
	case Lam:
		c.A = substFree(n.A, attrs, repl, append(append([]string{}, bound...), n.Params...))
		return &c
	}
	c.A = substFree(n.A, attrs, repl, bound)
	c.B = substFree(n.B, attrs, repl, bound)
	c.C = substFree(n.C, attrs, repl, bound)
	if n.Args != nil {
		c.Args = make([]*Node, len(n.Args))
		for i, a := range n.Args {
			c.Args[i] = substFree(a, attrs, repl, bound)
		}
	}
	return &c
}
