// Package vlang is the checks' own AST of the value expression language (package value of /repo),
// with a renderer that knows the concrete syntax: where let/func are allowed ("L-positions"), how
// keyword forms and closures extend to the right, operator priorities, and a typed, size-bounded,
// exhaustive program enumerator (enum.go). The reference interpreter (package refsem) evaluates
// these trees directly and never sees text or the parser.
package vlang

import (
	"strconv"
	"strings"
)

type Kind uint8

const (
	Int Kind = iota
	Float
	Str
	Bool
	Var    // S
	Bin    // S op, A, B
	Un     // S op, A
	Let    // let S = A; B
	Func   // func S(Params) A; B
	Lam    // Params -> A
	Call   // A(Args)
	Static // S(Args)   static function
	If     // if A then B else C
	Switch // switch A case Args[0]: Args[1] ... default B
	Try    // try A catch B
	ListLit
	MapLit // Keys, Args
	Index  // A[B]
	Member // A.S
	Method // A.S(Args)
)

type Node struct {
	K       Kind
	S       string
	I       int64
	F       float64
	A, B, C *Node
	Args    []*Node
	Params  []string
	Keys    []string
}

func I(v int64) *Node                       { return &Node{K: Int, I: v} }
func Fl(v float64) *Node                    { return &Node{K: Float, F: v} }
func S(v string) *Node                      { return &Node{K: Str, S: v} }
func Bo(v bool) *Node                       { n := &Node{K: Bool}; if v { n.I = 1 }; return n }
func V(name string) *Node                   { return &Node{K: Var, S: name} }
func Op(op string, a, b *Node) *Node        { return &Node{K: Bin, S: op, A: a, B: b} }
func Neg(a *Node) *Node                     { return &Node{K: Un, S: "-", A: a} }
func Not(a *Node) *Node                     { return &Node{K: Un, S: "!", A: a} }
func LetN(name string, v, body *Node) *Node { return &Node{K: Let, S: name, A: v, B: body} }
func FuncN(name string, params []string, fbody, body *Node) *Node {
	return &Node{K: Func, S: name, Params: params, A: fbody, B: body}
}
func LamN(params []string, body *Node) *Node { return &Node{K: Lam, Params: params, A: body} }
func CallN(f *Node, args ...*Node) *Node     { return &Node{K: Call, A: f, Args: args} }
func StaticN(name string, args ...*Node) *Node {
	return &Node{K: Static, S: name, Args: args}
}
func IfN(c, t, e *Node) *Node        { return &Node{K: If, A: c, B: t, C: e} }
func TryN(t, c *Node) *Node          { return &Node{K: Try, A: t, B: c} }
func ListN(el ...*Node) *Node        { return &Node{K: ListLit, Args: el} }
func IndexN(l, i *Node) *Node        { return &Node{K: Index, A: l, B: i} }
func MemberN(m *Node, k string) *Node { return &Node{K: Member, A: m, S: k} }
func MethodN(r *Node, name string, args ...*Node) *Node {
	return &Node{K: Method, A: r, S: name, Args: args}
}
func MapN(keys []string, vals ...*Node) *Node { return &Node{K: MapLit, Keys: keys, Args: vals} }
func SwitchN(v *Node, def *Node, casePairs ...*Node) *Node {
	return &Node{K: Switch, A: v, B: def, Args: casePairs}
}

// operator table of value.New(), ascending priority
var binOps = []string{"|", "&", "=", "!=", "~", "<", ">", "<=", ">=", "+", "-", "<<", ">>", "*", "%", "/", "^"}

func prio(op string) int {
	for i, o := range binOps {
		if o == op {
			return i
		}
	}
	panic("unknown operator " + op)
}

const endPrio = -1000
const postfixMin = 1 << 30

// Render writes the program as source text.
func Render(n *Node) string {
	var sb strings.Builder
	render(&sb, n, -1, endPrio, true)
	return sb.String()
}

func quote(s string) string {
	var sb strings.Builder
	sb.WriteByte('"')
	for _, r := range s {
		switch r {
		case '"':
			sb.WriteString(`\"`)
		case '\\':
			sb.WriteString(`\\`)
		case '\n':
			sb.WriteString(`\n`)
		case '\r':
			sb.WriteString(`\r`)
		case '\t':
			sb.WriteString(`\t`)
		default:
			sb.WriteRune(r)
		}
	}
	sb.WriteByte('"')
	return sb.String()
}

func fmtFloat(f float64) string {
	s := strconv.FormatFloat(f, 'f', -1, 64)
	if !strings.ContainsAny(s, ".") {
		s += ".0"
	}
	return s
}

// render writes n. min/follow as in gx.render; lpos tells whether the position accepts let/func.
// Greedy forms (let, func, closures, if, try, switch) are parenthesised unless nothing follows them
// inside the enclosing bracket/argument (follow == endPrio) and no operator context demands
// a priority (min == -1). let/func cannot be parenthesised at all: rendering one outside an
// L-position is a bug of the generator and panics.
func render(sb *strings.Builder, n *Node, min, follow int, lpos bool) {
	greedy := func(body func()) {
		if follow != endPrio || min > -1 {
			sb.WriteByte('(')
			body()
			sb.WriteByte(')')
		} else {
			body()
		}
	}
	// sub renders a child at a fresh position inside brackets / after keywords
	sub := func(c *Node, l bool) { render(sb, c, -1, endPrio, l) }
	switch n.K {
	case Int:
		if n.I < 0 {
			// a negative literal is unary minus applied to a number
			render(sb, &Node{K: Un, S: "-", A: &Node{K: Int, I: -n.I}}, min, follow, lpos)
			return
		}
		sb.WriteString(strconv.FormatInt(n.I, 10))
	case Float:
		if n.F < 0 {
			render(sb, &Node{K: Un, S: "-", A: &Node{K: Float, F: -n.F}}, min, follow, lpos)
			return
		}
		sb.WriteString(fmtFloat(n.F))
	case Str:
		sb.WriteString(quote(n.S))
	case Bool:
		if n.I != 0 {
			sb.WriteString("true")
		} else {
			sb.WriteString("false")
		}
	case Var:
		sb.WriteString(n.S)
	case Bin:
		p := prio(n.S)
		body := func(f int) {
			render(sb, n.A, p, p, false)
			sb.WriteString(n.S)
			render(sb, n.B, p+1, f, false)
		}
		if p < min {
			sb.WriteByte('(')
			body(endPrio)
			sb.WriteByte(')')
		} else {
			body(follow)
		}
	case Un:
		up := -1
		if n.S == "-" {
			up = prio("-")
		}
		need := min >= postfixMin
		if up >= 0 && follow > up {
			need = true
		}
		body := func(f int) {
			sb.WriteString(n.S)
			if up >= 0 {
				render(sb, n.A, up+1, f, false)
			} else {
				render(sb, n.A, postfixMin, f, false)
			}
		}
		if need {
			sb.WriteByte('(')
			body(endPrio)
			sb.WriteByte(')')
		} else {
			body(follow)
		}
	case Let:
		if !lpos || follow != endPrio || min > -1 {
			panic("vlang.Render: let outside an L-position: " + Dump(n))
		}
		sb.WriteString("let " + n.S + "=")
		sub(n.A, false)
		sb.WriteString(";")
		sub(n.B, true)
	case Func:
		if !lpos || follow != endPrio || min > -1 {
			panic("vlang.Render: func outside an L-position: " + Dump(n))
		}
		sb.WriteString("func " + n.S + "(" + strings.Join(n.Params, ",") + ") ")
		sub(n.A, true)
		sb.WriteString(";")
		sub(n.B, true)
	case Lam:
		greedy(func() {
			if len(n.Params) == 1 {
				sb.WriteString(n.Params[0] + "->")
			} else {
				sb.WriteString("(" + strings.Join(n.Params, ",") + ")->")
			}
			sub(n.A, true)
		})
	case Call:
		renderHead(sb, n.A)
		renderArgs(sb, n.Args)
	case Static:
		sb.WriteString(n.S)
		renderArgs(sb, n.Args)
	case If:
		greedy(func() {
			sb.WriteString("if ")
			sub(n.A, false)
			sb.WriteString(" then ")
			sub(n.B, true)
			sb.WriteString(" else ")
			sub(n.C, true)
		})
	case Switch:
		greedy(func() {
			sb.WriteString("switch ")
			sub(n.A, false)
			for i := 0; i+1 < len(n.Args); i += 2 {
				sb.WriteString(" case ")
				sub(n.Args[i], false)
				sb.WriteString(": ")
				sub(n.Args[i+1], true)
			}
			sb.WriteString(" default ")
			sub(n.B, true)
		})
	case Try:
		greedy(func() {
			sb.WriteString("try ")
			sub(n.A, true)
			sb.WriteString(" catch ")
			sub(n.B, true)
		})
	case ListLit:
		sb.WriteByte('[')
		for i, a := range n.Args {
			if i > 0 {
				sb.WriteByte(',')
			}
			sub(a, true)
		}
		sb.WriteByte(']')
	case MapLit:
		sb.WriteByte('{')
		for i, a := range n.Args {
			if i > 0 {
				sb.WriteByte(',')
			}
			sb.WriteString(n.Keys[i] + ":")
			sub(a, true)
		}
		sb.WriteByte('}')
	case Index:
		renderHead(sb, n.A)
		sb.WriteByte('[')
		sub(n.B, false)
		sb.WriteByte(']')
	case Member:
		renderHead(sb, n.A)
		sb.WriteString("." + n.S)
	case Method:
		renderHead(sb, n.A)
		sb.WriteString("." + n.S)
		renderArgs(sb, n.Args)
	default:
		panic("render: kind")
	}
}

// renderHead writes the head of a postfix form (call target, receiver, indexed list).
func renderHead(sb *strings.Builder, n *Node) {
	switch n.K {
	case Var, Call, Static, Index, Member, Method, ListLit, MapLit, Str, Bool:
		render(sb, n, postfixMin, endPrio, false)
	case Int, Float:
		// "1.k" would lex as a number: parenthesise numbers in head position
		sb.WriteByte('(')
		render(sb, n, -1, endPrio, false)
		sb.WriteByte(')')
	default:
		sb.WriteByte('(')
		render(sb, n, -1, endPrio, false)
		sb.WriteByte(')')
	}
}

func renderArgs(sb *strings.Builder, args []*Node) {
	sb.WriteByte('(')
	for i, a := range args {
		if i > 0 {
			sb.WriteByte(',')
		}
		render(sb, a, -1, endPrio, true)
	}
	sb.WriteByte(')')
}

// Dump writes an unambiguous S-expression of the tree (for messages and distinct-case keys).
func Dump(n *Node) string {
	var sb strings.Builder
	dump(&sb, n)
	return sb.String()
}

func dump(sb *strings.Builder, n *Node) {
	if n == nil {
		sb.WriteString("nil")
		return
	}
	w := func(head string, kids ...*Node) {
		sb.WriteString("(" + head)
		for _, k := range kids {
			sb.WriteByte(' ')
			dump(sb, k)
		}
		sb.WriteByte(')')
	}
	switch n.K {
	case Int:
		sb.WriteString(strconv.FormatInt(n.I, 10))
	case Float:
		sb.WriteString(fmtFloat(n.F))
	case Str:
		sb.WriteString(quote(n.S))
	case Bool:
		sb.WriteString(map[bool]string{true: "true", false: "false"}[n.I != 0])
	case Var:
		sb.WriteString(n.S)
	case Bin:
		w(n.S, n.A, n.B)
	case Un:
		w("u"+n.S, n.A)
	case Let:
		w("let "+n.S, n.A, n.B)
	case Func:
		w("func "+n.S+"("+strings.Join(n.Params, ",")+")", n.A, n.B)
	case Lam:
		w("lam("+strings.Join(n.Params, ",")+")", n.A)
	case Call:
		w("call", append([]*Node{n.A}, n.Args...)...)
	case Static:
		w("static "+n.S, n.Args...)
	case If:
		w("if", n.A, n.B, n.C)
	case Switch:
		w("switch", append([]*Node{n.A, n.B}, n.Args...)...)
	case Try:
		w("try", n.A, n.B)
	case ListLit:
		w("list", n.Args...)
	case MapLit:
		w("map{"+strings.Join(n.Keys, ",")+"}", n.Args...)
	case Index:
		w("index", n.A, n.B)
	case Member:
		w("member "+n.S, n.A)
	case Method:
		w("method "+n.S, append([]*Node{n.A}, n.Args...)...)
	}
}

// Size counts nodes.
func Size(n *Node) int {
	if n == nil {
		return 0
	}
	s := 1 + Size(n.A) + Size(n.B) + Size(n.C)
	for _, a := range n.Args {
		s += Size(a)
	}
	return s
}

// Walk visits every node.
func Walk(n *Node, f func(*Node)) {
	if n == nil {
		return
	}
	f(n)
	Walk(n.A, f)
	Walk(n.B, f)
	Walk(n.C, f)
	for _, a := range n.Args {
		Walk(a, f)
	}
}
