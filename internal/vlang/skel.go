package vlang

// "Tier B" of C01/C16: binder skeletons. Every nesting of up to K binding / call constructs — let,
// func, immediately applied closures with 1..2 parameters, curried closures, a closure returned from
// a function, a closure stored in a map and called as m.f(·,·), static-function arguments, list/map
// literal elements, method arguments and callbacks, if/switch/try arms — with the nesting continued
// in EVERY argument position, and the innermost hole filled with the maximal observer
//     Σ wᵢ·nameᵢ   over all names in scope (closures are observed by calling them)
// so that one program per skeleton distinguishes every mis-resolution of every visible name.

import "strconv"

// Skel enumerates skeletons. Obs2 is the name of a host-registered static function
// obs2(x,y) = x*1009+y used to observe both arguments of a static call.
type Skel struct {
	Obs2    string
	counter int
}

// filler returns a small non-constant int expression that is different for every call.
func (s *Skel) filler(sc *Scope) *Node {
	s.counter++
	c := int64(s.counter%7 + 1)
	// prefer a visible int variable so that nothing is constant-folded
	var ints []string
	seen := map[string]bool{}
	for i := len(sc.vars) - 1; i >= 0; i-- {
		b := sc.vars[i]
		if seen[b.name] {
			continue
		}
		seen[b.name] = true
		if b.sort == SI {
			ints = append(ints, b.name)
		}
	}
	v := ints[s.counter%len(ints)]
	if s.counter%2 == 0 {
		return Op("+", V(v), I(c))
	}
	return Op("*", V(v), I(c+1))
}

// Observer builds Σ wᵢ·nameᵢ over the visible names.
func Observer(sc *Scope) *Node {
	var sum *Node
	w := int64(1)
	seen := map[string]bool{}
	add := func(t *Node) {
		term := Op("*", I(w), t)
		if sum == nil {
			sum = term
		} else {
			sum = Op("+", sum, term)
		}
		w = w*7 + 3
	}
	for i := len(sc.vars) - 1; i >= 0; i-- {
		b := sc.vars[i]
		if seen[b.name] {
			continue
		}
		seen[b.name] = true
		switch b.sort {
		case SI:
			add(V(b.name))
		case SF1:
			add(CallN(V(b.name), I(3)))
		case SF2:
			add(CallN(V(b.name), I(3), I(4)))
		case SL:
			add(MethodN(V(b.name), "sum"))
		case SM:
			add(MemberN(V(b.name), "k"))
		}
	}
	if sum == nil {
		return I(0)
	}
	return sum
}

// fresh returns a fresh name and, if possible, a shadowing alternative.
func names(sc *Scope, avoid ...string) []string { return sc.newNames(avoid...) }

// Each yields every skeleton of exactly depth k below scope sc; the hole is an L-position.
func (s *Skel) Each(k int, sc *Scope, yield func(*Node) bool) bool {
	if k == 0 {
		return yield(Observer(sc))
	}
	next := func(sc2 *Scope, wrap func(h *Node) *Node) bool {
		return s.Each(k-1, sc2, func(h *Node) bool { return yield(wrap(h)) })
	}
	// 1. let x = E; H      (x int)
	for _, x := range names(sc) {
		e := s.filler(sc)
		if !next(sc.withLet(x, SI), func(h *Node) *Node { return LetN(x, e, h) }) {
			return false
		}
	}
	// 2. let g = (p,q)->p*1009+q; g(E,H) and g(H,E): closure call argument positions
	for _, g := range names(sc)[:1] {
		inner := sc.withLet(g, SF2)
		ps := names(inner.Scope0(), g)
		p := ps[0]
		q := names(inner.Scope0(), g, p)[0]
		clo := LamN([]string{p, q}, Op("+", Op("*", V(p), I(1009)), V(q)))
		e := s.filler(sc)
		if !next(inner, func(h *Node) *Node { return LetN(g, clo, CallN(V(g), e, h)) }) {
			return false
		}
		if !next(inner, func(h *Node) *Node { return LetN(g, clo, CallN(V(g), h, e)) }) {
			return false
		}
	}
	// 3. static function arguments: obs2(E,H), obs2(H,E)
	if s.Obs2 != "" {
		e := s.filler(sc)
		if !next(sc, func(h *Node) *Node { return StaticN(s.Obs2, e, h) }) {
			return false
		}
		if !next(sc, func(h *Node) *Node { return StaticN(s.Obs2, h, e) }) {
			return false
		}
	}
	// 4. immediately applied closures: (x->H)(E); ((x,y)->H)(E1,E2)
	for _, x := range names(sc) {
		e := s.filler(sc)
		if !next(sc.withFrame([]string{x}, []Sort{SI}), func(h *Node) *Node { return CallN(LamN([]string{x}, h), e) }) {
			return false
		}
	}
	{
		x := names(sc)[0]
		y := names(sc, x)[0]
		e1, e2 := s.filler(sc), s.filler(sc)
		if !next(sc.withFrame([]string{x, y}, []Sort{SI, SI}), func(h *Node) *Node { return CallN(LamN([]string{x, y}, h), e1, e2) }) {
			return false
		}
	}
	// 5. curried closures: (x->y->H)(E1)(E2)
	{
		x := names(sc)[0]
		sx := sc.withFrame([]string{x}, []Sort{SI})
		y := names(sx)[0]
		e1, e2 := s.filler(sc), s.filler(sc)
		if !next(sx.withFrame([]string{y}, []Sort{SI}), func(h *Node) *Node {
			return CallN(CallN(LamN([]string{x}, LamN([]string{y}, h)), e1), e2)
		}) {
			return false
		}
	}
	// 6. func f(p) H; f(E)    and    func f(p) OBS; H (f visible in H)   and closure returned from a function
	for _, f := range names(sc)[:1] {
		p := names(sc, f)[0]
		e := s.filler(sc)
		inner := sc.withLet(f, SF1)
		if !next(sc.withFrame([]string{p}, []Sort{SI}), func(h *Node) *Node { return FuncN(f, []string{p}, h, CallN(V(f), e)) }) {
			return false
		}
		body := Observer(sc.withFrame([]string{p}, []Sort{SI}))
		if !next(inner, func(h *Node) *Node { return FuncN(f, []string{p}, body, h) }) {
			return false
		}
		// func mk(p) q->H; mk(E1)(E2)
		sp := sc.withFrame([]string{p}, []Sort{SI})
		q := names(sp)[0]
		e2 := s.filler(sc)
		if !next(sp.withFrame([]string{q}, []Sort{SI}), func(h *Node) *Node {
			return FuncN(f, []string{p}, LamN([]string{q}, h), CallN(CallN(V(f), e), e2))
		}) {
			return false
		}
	}
	// 7. closure stored in a map and called as a method: let m={f:(p,q)->p*1009+q}; m.f(E,H) / m.f(H,E)
	for _, m := range names(sc)[:1] {
		clo := LamN([]string{"p", "q"}, Op("+", Op("*", V("p"), I(1009)), V("q")))
		inner := sc.withLet(m, nSorts)
		e := s.filler(sc)
		if !next(inner, func(h *Node) *Node { return LetN(m, MapN([]string{"f"}, clo), MethodN(V(m), "f", e, h)) }) {
			return false
		}
		if !next(inner, func(h *Node) *Node { return LetN(m, MapN([]string{"f"}, clo), MethodN(V(m), "f", h, e)) }) {
			return false
		}
	}
	// 8. list / map literal elements and built-in method arguments
	{
		e := s.filler(sc)
		if !next(sc, func(h *Node) *Node { return MethodN(ListN(e, h), "sum") }) {
			return false
		}
		if !next(sc, func(h *Node) *Node { return MemberN(MapN([]string{"j", "k"}, e, h), "k") }) {
			return false
		}
		if !next(sc, func(h *Node) *Node { return MethodN(MethodN(ListN(e), "append", h), "sum") }) {
			return false
		}
		// callbacks: [E1,E2].map(x->H).sum(), [E1,E2,E3].reduce((p,q)->H)
		x := names(sc)[0]
		e2 := s.filler(sc)
		if !next(sc.withFrame([]string{x}, []Sort{SI}), func(h *Node) *Node {
			return MethodN(MethodN(ListN(e, e2), "map", LamN([]string{x}, h)), "sum")
		}) {
			return false
		}
		y := names(sc, x)[0]
		if !next(sc.withFrame([]string{x, y}, []Sort{SI, SI}), func(h *Node) *Node {
			return MethodN(ListN(e, e2, I(5)), "reduce", LamN([]string{x, y}, h))
		}) {
			return false
		}
	}
	// 9. if / switch / try arms
	{
		obs := Observer(sc)
		if !next(sc, func(h *Node) *Node { return IfN(Op("<", V("a"), I(1)), h, Op("+", obs, I(1))) }) {
			return false
		}
		if !next(sc, func(h *Node) *Node { return IfN(Op("<", V("a"), I(1)), Op("+", obs, I(1)), h) }) {
			return false
		}
		if !next(sc, func(h *Node) *Node { return SwitchN(V("a"), h, I(0), Op("+", obs, I(2))) }) {
			return false
		}
		if !next(sc, func(h *Node) *Node { return TryN(h, I(-1)) }) {
			return false
		}
		if !next(sc, func(h *Node) *Node { return TryN(StaticN("throw", S("e")), h) }) {
			return false
		}
		z := names(sc)[0]
		if !next(sc.withFrame([]string{z}, []Sort{nSorts}), func(h *Node) *Node {
			return TryN(StaticN("throw", S("e")), LamN([]string{z}, h))
		}) {
			return false
		}
	}
	return true
}

// Scope0 returns the receiver (helper so that call sites read uniformly).
func (s *Scope) Scope0() *Scope { return s }

// SkelCount counts skeletons of depth k.
func (s *Skel) Count(k int, sc *Scope) int {
	n := 0
	s.Each(k, sc, func(*Node) bool { n++; return true })
	return n
}

var _ = strconv.Itoa
