// Package refsem is the reference semantics of the value expression language: a deliberately boring
// interpreter over the checks' own AST (package vlang). Environments are immutable linked lists,
// closures capture their environment, evaluation is call-by-value and left-to-right. It never sees
// source text or the parser of /repo.
//
// Two deliberate deviations from "eager and dumb", both because the property texts define it so:
//   - lists produced by lazy stages are memo-less thunks, forced by every full consumer (an unconsumed
//     l.map(e->throw(..)) is a value, not an error);
//   - =, <, ~ work element-wise left to right and stop at the first decisive pair.
//
// Only ok-versus-error is modelled for faults; the text passed to throw is carried so that a catch
// closure can receive it: a string derived from an error message is "tainted" (the implementation
// decorates messages), and a decision that depends on a tainted string marks the run unspecified.
package refsem

import (
	"math"
	"sort"
	"strconv"
	"strings"

	"verif/internal/vlang"
)

type Val interface{}

type IntV int64
type FloatV float64
type BoolV bool
type StrV struct {
	S       string
	Tainted bool
}

// ListV is a possibly lazy list: Iter produces the elements on demand; a failing element is
// produced as an error (and ends the iteration for every consumer that looks at it).
type ListV struct {
	Iter func(yield func(v Val, err *Err) bool)
}

// Force yields all elements or the first error.
func (l *ListV) Force() ([]Val, *Err) {
	var out []Val
	var rerr *Err
	l.Iter(func(v Val, err *Err) bool {
		if err != nil {
			rerr = err
			return false
		}
		out = append(out, v)
		return true
	})
	if rerr != nil {
		return nil, rerr
	}
	return out, nil
}

type MapV struct {
	Keys []string
	Vals []Val
}

type CloV struct {
	Params []string
	Body   *vlang.Node
	Env    *Env
	Native func(in *Interp, args []Val) (Val, *Err)
	Arity  int
}

type Err struct {
	Msg    string
	Thrown bool // raised by throw(msg)
}

func E(msg string) *Err { return &Err{Msg: msg} }

type Env struct {
	Name string
	Val  Val
	Next *Env
}

func (e *Env) Bind(name string, v Val) *Env { return &Env{Name: name, Val: v, Next: e} }

func (e *Env) Lookup(name string) (Val, bool) {
	for ; e != nil; e = e.Next {
		if e.Name == name {
			return e.Val, true
		}
	}
	return nil, false
}

type Interp struct {
	Statics map[string]func(in *Interp, args []Val) (Val, *Err)
	// Methods: key "list.map", "map.put", "string.len", "int.string", …
	Methods map[string]Method
	Fuel    int
	Depth   int
	// Unspec is set when the outcome depends on something the specification leaves open.
	Unspec string
	// Ticks counts calls of counting host functions by name.
	Ticks map[string]int
}

type Method struct {
	// Arity is the number of arguments (without receiver), -1 = variable.
	Arity int
	Fn    func(in *Interp, recv Val, args []Val) (Val, *Err)
}

func New() *Interp {
	in := &Interp{Statics: map[string]func(in *Interp, args []Val) (Val, *Err){}, Methods: map[string]Method{}, Fuel: 200000, Ticks: map[string]int{}}
	installCore(in)
	return in
}

// Reset prepares for another evaluation.
func (in *Interp) Reset() {
	in.Fuel = 200000
	in.Depth = 0
	in.Unspec = ""
	for k := range in.Ticks {
		delete(in.Ticks, k)
	}
}

func (in *Interp) unspec(why string) {
	if in.Unspec == "" {
		in.Unspec = why
	}
}

const maxDepth = 3000

// Eval evaluates n in env.
func (in *Interp) Eval(n *vlang.Node, env *Env) (Val, *Err) {
	in.Fuel--
	if in.Fuel < 0 {
		in.unspec("reference interpreter out of fuel")
		return nil, E("fuel")
	}
	switch n.K {
	case vlang.Int:
		return IntV(n.I), nil
	case vlang.Float:
		return FloatV(n.F), nil
	case vlang.Str:
		return StrV{S: n.S}, nil
	case vlang.Bool:
		return BoolV(n.I != 0), nil
	case vlang.Var:
		if v, ok := env.Lookup(n.S); ok {
			return v, nil
		}
		return nil, E("unbound " + n.S)
	case vlang.Bin:
		if n.S == "&" || n.S == "|" {
			a, err := in.Eval(n.A, env)
			if err != nil {
				return nil, err
			}
			ab, ok := a.(BoolV)
			if !ok {
				// non-bool operands: the operator is also defined bitwise on two ints
				b, err := in.Eval(n.B, env)
				if err != nil {
					return nil, err
				}
				x, ok1 := a.(IntV)
				y, ok2 := b.(IntV)
				if !ok1 || !ok2 {
					return nil, E(n.S + " not defined")
				}
				if n.S == "&" {
					return x & y, nil
				}
				return x | y, nil
			}
			if n.S == "&" && !bool(ab) {
				return BoolV(false), nil
			}
			if n.S == "|" && bool(ab) {
				return BoolV(true), nil
			}
			b, err := in.Eval(n.B, env)
			if err != nil {
				return nil, err
			}
			bb, ok := b.(BoolV)
			if !ok {
				return nil, E("not a bool")
			}
			return bb, nil
		}
		a, err := in.Eval(n.A, env)
		if err != nil {
			return nil, err
		}
		b, err := in.Eval(n.B, env)
		if err != nil {
			return nil, err
		}
		return in.BinOp(n.S, a, b)
	case vlang.Un:
		a, err := in.Eval(n.A, env)
		if err != nil {
			return nil, err
		}
		return in.UnOp(n.S, a)
	case vlang.Let:
		v, err := in.Eval(n.A, env)
		if err != nil {
			return nil, err
		}
		return in.Eval(n.B, env.Bind(n.S, v))
	case vlang.Func:
		clo := &CloV{Params: n.Params, Body: n.A, Arity: len(n.Params)}
		fenv := env.Bind(n.S, clo)
		clo.Env = fenv
		return in.Eval(n.B, fenv)
	case vlang.Lam:
		return &CloV{Params: n.Params, Body: n.A, Env: env, Arity: len(n.Params)}, nil
	case vlang.Call:
		f, err := in.Eval(n.A, env)
		if err != nil {
			return nil, err
		}
		clo, ok := f.(*CloV)
		if !ok {
			return nil, E("not a function")
		}
		if clo.Arity != len(n.Args) {
			return nil, E("wrong number of arguments")
		}
		args, err := in.evalArgs(n.Args, env)
		if err != nil {
			return nil, err
		}
		return in.Apply(clo, args)
	case vlang.Static:
		fn, ok := in.Statics[n.S]
		if !ok {
			return nil, E("unknown static function " + n.S)
		}
		args, err := in.evalArgs(n.Args, env)
		if err != nil {
			return nil, err
		}
		return fn(in, args)
	case vlang.If:
		c, err := in.Eval(n.A, env)
		if err != nil {
			return nil, err
		}
		cb, ok := c.(BoolV)
		if !ok {
			return nil, E("if condition is not a bool")
		}
		if cb {
			return in.Eval(n.B, env)
		}
		return in.Eval(n.C, env)
	case vlang.Switch:
		v, err := in.Eval(n.A, env)
		if err != nil {
			return nil, err
		}
		for i := 0; i+1 < len(n.Args); i += 2 {
			c, err := in.Eval(n.Args[i], env)
			if err != nil {
				return nil, err
			}
			eq, err := in.Equal(v, c)
			if err != nil {
				return nil, err
			}
			if eq {
				return in.Eval(n.Args[i+1], env)
			}
		}
		return in.Eval(n.B, env)
	case vlang.Try:
		v, err := in.Eval(n.A, env)
		if err == nil {
			return v, nil
		}
		if err.Msg == "fuel" {
			return nil, err
		}
		c, cerr := in.Eval(n.B, env)
		if cerr != nil {
			return nil, cerr
		}
		if clo, ok := c.(*CloV); ok && clo.Arity == 1 {
			return in.Apply(clo, []Val{StrV{S: err.Msg, Tainted: true}})
		}
		return c, nil
	case vlang.ListLit:
		els, err := in.evalArgs(n.Args, env)
		if err != nil {
			return nil, err
		}
		return Eager(els), nil
	case vlang.MapLit:
		vals, err := in.evalArgs(n.Args, env)
		if err != nil {
			return nil, err
		}
		return &MapV{Keys: append([]string{}, n.Keys...), Vals: vals}, nil
	case vlang.Index:
		// The implementation evaluates the index before the list. For values and ok-vs-error this is
		// unobservable; it shows only in how often an impure host function runs when the other operand
		// fails (try [tick(2)][throw("e")] catch 1: 0 ticks). No property fixes that count against the
		// program text (C02 compares optimizer on with off), so the reference follows the implementation.
		i, err := in.Eval(n.B, env)
		if err != nil {
			return nil, err
		}
		l, err := in.Eval(n.A, env)
		if err != nil {
			return nil, err
		}
		lv, ok := l.(*ListV)
		if !ok {
			return nil, E("not a list")
		}
		iv, ok := i.(IntV)
		if !ok {
			return nil, E("index not an int")
		}
		els, err := lv.Force()
		if err != nil {
			return nil, err
		}
		if iv < 0 || int(iv) >= len(els) {
			return nil, E("index out of bounds")
		}
		return els[iv], nil
	case vlang.Member:
		m, err := in.Eval(n.A, env)
		if err != nil {
			return nil, err
		}
		mv, ok := m.(*MapV)
		if !ok {
			return nil, E("not a map")
		}
		if v, ok := mv.Get(n.S); ok {
			return v, nil
		}
		return nil, E("key not found")
	case vlang.Method:
		recv, err := in.Eval(n.A, env)
		if err != nil {
			return nil, err
		}
		// a map field holding a closure is called like a method
		if mv, ok := recv.(*MapV); ok {
			if fv, ok := mv.Get(n.S); ok {
				if clo, ok := fv.(*CloV); ok {
					if clo.Arity != len(n.Args) {
						return nil, E("wrong number of arguments")
					}
					args, err := in.evalArgs(n.Args, env)
					if err != nil {
						return nil, err
					}
					return in.Apply(clo, args)
				}
			}
		}
		m, ok := in.Methods[TypeName(recv)+"."+n.S]
		if !ok {
			return nil, E("method not found: " + TypeName(recv) + "." + n.S)
		}
		if m.Arity >= 0 && m.Arity != len(n.Args) {
			return nil, E("wrong number of arguments")
		}
		args, err := in.evalArgs(n.Args, env)
		if err != nil {
			return nil, err
		}
		return m.Fn(in, recv, args)
	}
	panic("refsem: kind")
}

func (in *Interp) evalArgs(args []*vlang.Node, env *Env) ([]Val, *Err) {
	out := make([]Val, len(args))
	for i, a := range args {
		v, err := in.Eval(a, env)
		if err != nil {
			return nil, err
		}
		out[i] = v
	}
	return out, nil
}

// Apply calls a closure with evaluated arguments.
func (in *Interp) Apply(c *CloV, args []Val) (Val, *Err) {
	if c.Arity != len(args) {
		return nil, E("wrong number of arguments")
	}
	if c.Native != nil {
		return c.Native(in, args)
	}
	in.Depth++
	defer func() { in.Depth-- }()
	if in.Depth > maxDepth {
		return nil, E("stack overflow")
	}
	env := c.Env
	for i, p := range c.Params {
		env = env.Bind(p, args[i])
	}
	return in.Eval(c.Body, env)
}

// Call1 applies a value that must be a closure of arity len(args).
func (in *Interp) CallV(f Val, args ...Val) (Val, *Err) {
	c, ok := f.(*CloV)
	if !ok {
		return nil, E("not a function")
	}
	return in.Apply(c, args)
}

func Eager(els []Val) *ListV {
	return &ListV{Iter: func(yield func(Val, *Err) bool) {
		for _, e := range els {
			if !yield(e, nil) {
				return
			}
		}
	}}
}

func (m *MapV) Get(k string) (Val, bool) {
	for i, kk := range m.Keys {
		if kk == k {
			return m.Vals[i], true
		}
	}
	return nil, false
}

func TypeName(v Val) string {
	switch v.(type) {
	case IntV:
		return "int"
	case FloatV:
		return "float"
	case StrV:
		return "string"
	case BoolV:
		return "bool"
	case *ListV:
		return "list"
	case *MapV:
		return "map"
	case *CloV:
		return "closure"
	}
	return "?"
}

func num(v Val) (float64, bool, bool) { // value, isNumber, isInt
	switch x := v.(type) {
	case IntV:
		return float64(x), true, true
	case FloatV:
		return float64(x), true, false
	}
	return 0, false, false
}

// ToString is the string form used by "+" on strings, string() and list/map string().
func (in *Interp) ToString(v Val) (string, *Err) {
	switch x := v.(type) {
	case IntV:
		return strconv.FormatInt(int64(x), 10), nil
	case FloatV:
		return strconv.FormatFloat(float64(x), 'g', -1, 64), nil
	case BoolV:
		if x {
			return "true", nil
		}
		return "false", nil
	case StrV:
		return x.S, nil
	case *CloV:
		return "func" + strconv.Itoa(x.Arity), nil
	case *ListV:
		els, err := x.Force()
		if err != nil {
			return "", err
		}
		parts := make([]string, len(els))
		for i, e := range els {
			s, err := in.ToString(e)
			if err != nil {
				return "", err
			}
			parts[i] = s
		}
		return "[" + strings.Join(parts, ", ") + "]", nil
	case *MapV:
		parts := make([]string, len(x.Keys))
		for i, k := range x.Keys {
			s, err := in.ToString(x.Vals[i])
			if err != nil {
				return "", err
			}
			parts[i] = k + ":" + s
		}
		return "{" + strings.Join(parts, ", ") + "}", nil
	}
	return "", E("no string form")
}

func tainted(v Val) bool {
	s, ok := v.(StrV)
	return ok && s.Tainted
}

// Equal is the deep equality of "=".
func (in *Interp) Equal(a, b Val) (bool, *Err) {
	if tainted(a) || tainted(b) {
		in.unspec("decision depends on the text of an error message")
	}
	switch x := a.(type) {
	case *ListV:
		if y, ok := b.(*ListV); ok {
			xs, err := x.Force()
			if err != nil {
				return false, err
			}
			ys, err := y.Force()
			if err != nil {
				return false, err
			}
			if len(xs) != len(ys) {
				return false, nil
			}
			for i := range xs {
				eq, err := in.Equal(xs[i], ys[i])
				if err != nil {
					return false, err
				}
				if !eq {
					return false, nil
				}
			}
			return true, nil
		}
		return false, E("= not defined")
	case *MapV:
		if y, ok := b.(*MapV); ok {
			if len(x.Keys) != len(y.Keys) {
				return false, nil
			}
			for i, k := range x.Keys {
				o, ok := y.Get(k)
				if !ok {
					return false, nil
				}
				eq, err := in.Equal(o, x.Vals[i])
				if err != nil {
					return false, err
				}
				if !eq {
					return false, nil
				}
			}
			return true, nil
		}
		return false, E("= not defined")
	case BoolV:
		if y, ok := b.(BoolV); ok {
			return x == y, nil
		}
	case StrV:
		if y, ok := b.(StrV); ok {
			return x.S == y.S, nil
		}
	case IntV:
		switch y := b.(type) {
		case IntV:
			return x == y, nil
		case FloatV:
			return float64(x) == float64(y), nil
		}
	case FloatV:
		switch y := b.(type) {
		case IntV:
			return float64(x) == float64(y), nil
		case FloatV:
			return float64(x) == float64(y), nil
		}
	}
	return false, E("= not defined")
}

// Less is "<".
func (in *Interp) Less(a, b Val) (bool, *Err) {
	if tainted(a) || tainted(b) {
		in.unspec("decision depends on the text of an error message")
	}
	if x, ok := a.(StrV); ok {
		if y, ok := b.(StrV); ok {
			return x.S < y.S, nil
		}
		return false, E("< not defined")
	}
	x, okx, ix := num(a)
	y, oky, iy := num(b)
	if !okx || !oky {
		return false, E("< not defined")
	}
	if ix && iy {
		return a.(IntV) < b.(IntV), nil
	}
	return x < y, nil
}

func (in *Interp) UnOp(op string, a Val) (Val, *Err) {
	switch op {
	case "-":
		switch x := a.(type) {
		case IntV:
			return -x, nil
		case FloatV:
			return -x, nil
		}
		return nil, E("unary - not defined")
	case "!":
		if x, ok := a.(BoolV); ok {
			return !x, nil
		}
		return nil, E("! not defined")
	}
	panic("unop " + op)
}

func arith(op string, a, b Val) (Val, *Err) {
	x, okx, ix := num(a)
	y, oky, iy := num(b)
	if !okx || !oky {
		return nil, E(op + " not defined")
	}
	if ix && iy {
		p, q := int64(a.(IntV)), int64(b.(IntV))
		switch op {
		case "+":
			return IntV(p + q), nil
		case "-":
			return IntV(p - q), nil
		case "*":
			return IntV(p * q), nil
		case "/":
			return FloatV(float64(p) / float64(q)), nil
		case "%":
			if q == 0 {
				return nil, E("modulo by zero")
			}
			return IntV(p % q), nil
		}
	}
	switch op {
	case "+":
		return FloatV(x + y), nil
	case "-":
		return FloatV(x - y), nil
	case "*":
		return FloatV(x * y), nil
	case "/":
		return FloatV(x / y), nil
	}
	return nil, E(op + " not defined")
}

// BinOp implements the binary operators except & and | (short-circuit, in Eval).
func (in *Interp) BinOp(op string, a, b Val) (Val, *Err) {
	switch op {
	case "+":
		if s, ok := a.(StrV); ok {
			t, err := in.ToString(b)
			if err != nil {
				return nil, err
			}
			return StrV{S: s.S + t, Tainted: s.Tainted || tainted(b)}, nil
		}
		if x, ok := a.(*ListV); ok {
			if y, ok := b.(*ListV); ok {
				return Concat(x, y), nil
			}
			return nil, E("+ not defined")
		}
		if x, ok := a.(*MapV); ok {
			if y, ok := b.(*MapV); ok {
				return MapMerge(x, y)
			}
			return nil, E("+ not defined")
		}
		return arith(op, a, b)
	case "-", "*", "/", "%":
		return arith(op, a, b)
	case "<<", ">>":
		x, ok1 := a.(IntV)
		y, ok2 := b.(IntV)
		if !ok1 || !ok2 {
			return nil, E(op + " not defined")
		}
		if y < 0 {
			return nil, E("negative shift")
		}
		if op == "<<" {
			return IntV(int64(x) << uint64(y)), nil
		}
		return IntV(int64(x) >> uint64(y)), nil
	case "^":
		x, okx, ix := num(a)
		y, oky, iy := num(b)
		if !okx || !oky {
			return nil, E("^ not defined")
		}
		if ix && iy {
			p, q := int64(a.(IntV)), int64(b.(IntV))
			if q > 0 && q < 10 {
				r := p
				for j := int64(1); j < q; j++ {
					r *= p
				}
				return IntV(r), nil
			}
			f := math.Pow(x, y)
			if math.IsNaN(f) || math.IsInf(f, 0) || math.Abs(f) > 9e18 {
				in.unspec("out-of-range float-to-int conversion in ^")
			}
			return IntV(int64(f)), nil
		}
		return FloatV(math.Pow(x, y)), nil
	case "=":
		eq, err := in.Equal(a, b)
		if err != nil {
			return nil, err
		}
		return BoolV(eq), nil
	case "!=":
		eq, err := in.Equal(a, b)
		if err != nil {
			return nil, err
		}
		return BoolV(!eq), nil
	case "<":
		l, err := in.Less(a, b)
		if err != nil {
			return nil, err
		}
		return BoolV(l), nil
	case ">":
		l, err := in.Less(b, a)
		if err != nil {
			return nil, err
		}
		return BoolV(l), nil
	case "<=":
		l, err := in.Less(a, b)
		if err != nil {
			return nil, err
		}
		if l {
			return BoolV(true), nil
		}
		eq, err := in.Equal(a, b)
		if err != nil {
			return nil, err
		}
		return BoolV(eq), nil
	case ">=":
		l, err := in.Less(b, a)
		if err != nil {
			return nil, err
		}
		if l {
			return BoolV(true), nil
		}
		eq, err := in.Equal(a, b)
		if err != nil {
			return nil, err
		}
		return BoolV(eq), nil
	case "~":
		if l, ok := b.(*ListV); ok {
			if s, ok := a.(*ListV); ok {
				return in.containsAll(l, s)
			}
			// demand-driven: stop at the first hit, fail at the first failing element or
			// incomparable pair before it
			var res Val = BoolV(false)
			var rerr *Err
			l.Iter(func(e Val, err *Err) bool {
				if err != nil {
					rerr = err
					return false
				}
				eq, eerr := in.Equal(a, e)
				if eerr != nil {
					rerr = eerr
					return false
				}
				if eq {
					res = BoolV(true)
					return false
				}
				return true
			})
			if rerr != nil {
				return nil, rerr
			}
			return res, nil
		}
		if m, ok := b.(*MapV); ok {
			if k, ok := a.(StrV); ok {
				_, has := m.Get(k.S)
				return BoolV(has), nil
			}
		}
		if x, ok := a.(StrV); ok {
			if y, ok := b.(StrV); ok {
				if x.Tainted || y.Tainted {
					in.unspec("decision depends on the text of an error message")
				}
				return BoolV(strings.Contains(y.S, x.S)), nil
			}
		}
		return nil, E("~ not defined")
	}
	panic("binop " + op)
}

func (in *Interp) containsAll(l, search *ListV) (Val, *Err) {
	look, err := search.Force()
	if err != nil {
		return nil, err
	}
	look = append([]Val{}, look...)
	els, err := l.Force()
	if err != nil {
		// the implementation stops as soon as everything is found; an error behind that point is
		// not seen. Keep it simple: unspecified.
		in.unspec("list ~ list with a failing element")
		return nil, err
	}
	more := len(look) > len(els)
	for _, v := range els {
		for i, lf := range look {
			eq, err := in.Equal(lf, v)
			if err != nil {
				if more {
					// a materialised right operand with fewer items answers false before any element
					// is compared, a lazy one compares first: false or the error
					in.unspec("list ~ list with incomparable elements where the size alone decides")
				}
				return nil, err
			}
			if eq {
				look = append(look[:i], look[i+1:]...)
				break
			}
		}
		if len(look) == 0 {
			return BoolV(true), nil
		}
	}
	return BoolV(len(look) == 0), nil
}

// Concat is the lazy list concatenation of "+".
func Concat(x, y *ListV) *ListV {
	return &ListV{Iter: func(yield func(Val, *Err) bool) {
		stop := false
		x.Iter(func(v Val, err *Err) bool {
			if !yield(v, err) {
				stop = true
				return false
			}
			return true
		})
		if stop {
			return
		}
		y.Iter(yield)
	}}
}

// MapMerge is "+" on maps: keys must be disjoint.
func MapMerge(x, y *MapV) (Val, *Err) {
	for _, k := range y.Keys {
		if _, ok := x.Get(k); ok {
			return nil, E("key already present")
		}
	}
	return &MapV{Keys: append(append([]string{}, x.Keys...), y.Keys...), Vals: append(append([]Val{}, x.Vals...), y.Vals...)}, nil
}

// DeepForce forces every list inside v (what an observer of the final result does).
func DeepForce(v Val) (Val, *Err) {
	switch x := v.(type) {
	case *ListV:
		els, err := x.Force()
		if err != nil {
			return nil, err
		}
		out := make([]Val, len(els))
		for i, e := range els {
			f, err := DeepForce(e)
			if err != nil {
				return nil, err
			}
			out[i] = f
		}
		return Eager(out), nil
	case *MapV:
		out := &MapV{Keys: x.Keys, Vals: make([]Val, len(x.Vals))}
		for i, e := range x.Vals {
			f, err := DeepForce(e)
			if err != nil {
				return nil, err
			}
			out.Vals[i] = f
		}
		return out, nil
	}
	return v, nil
}

// Canon writes a canonical text of a deeply forced value: maps with sorted keys, numbers with kind.
func Canon(v Val) string {
	var sb strings.Builder
	canon(&sb, v)
	return sb.String()
}

func canon(sb *strings.Builder, v Val) {
	switch x := v.(type) {
	case IntV:
		sb.WriteString("i" + strconv.FormatInt(int64(x), 10))
	case FloatV:
		if math.IsNaN(float64(x)) {
			sb.WriteString("fNaN")
		} else {
			sb.WriteString("f" + strconv.FormatFloat(float64(x), 'g', -1, 64))
		}
	case BoolV:
		if x {
			sb.WriteString("true")
		} else {
			sb.WriteString("false")
		}
	case StrV:
		if x.Tainted {
			sb.WriteString("s<tainted>")
		} else {
			sb.WriteString("s" + strconv.Quote(x.S))
		}
	case *CloV:
		sb.WriteString("closure/" + strconv.Itoa(x.Arity))
	case *ListV:
		els, _ := x.Force()
		sb.WriteByte('[')
		for i, e := range els {
			if i > 0 {
				sb.WriteByte(',')
			}
			canon(sb, e)
		}
		sb.WriteByte(']')
	case *MapV:
		idx := make([]int, len(x.Keys))
		for i := range idx {
			idx[i] = i
		}
		sort.Slice(idx, func(a, b int) bool { return x.Keys[idx[a]] < x.Keys[idx[b]] })
		sb.WriteByte('{')
		for j, i := range idx {
			if j > 0 {
				sb.WriteByte(',')
			}
			sb.WriteString(strconv.Quote(x.Keys[i]) + ":")
			canon(sb, x.Vals[i])
		}
		sb.WriteByte('}')
	default:
		sb.WriteString("?")
	}
}

// HasTaint reports whether a (forced) value contains a string derived from an error message.
func HasTaint(v Val) bool {
	switch x := v.(type) {
	case StrV:
		return x.Tainted
	case *ListV:
		els, _ := x.Force()
		for _, e := range els {
			if HasTaint(e) {
				return true
			}
		}
	case *MapV:
		for _, e := range x.Vals {
			if HasTaint(e) {
				return true
			}
		}
	}
	return false
}
