package refsem

// Full library model of the reference semantics (property C07): every built-in method and static
// function of value.New() that the property names, written from the SetMethodDescription /
// SetDescription texts and DESIGN.md Appendix B — plain slices and loops, no iterator combinators.
//
// Conventions
//   - lazy stages return memo-less thunks with minimal demand (like list.map of the core library);
//     eager consumers force their receiver;
//   - misuse (non-closure, wrong arity, wrong argument type) is an error of the call itself; a callback
//     result of the wrong sort is an error at the element where it is produced;
//   - where a description is silent or contradicts itself the run is marked unspecified (in.unspec) and
//     the harness excludes it from the oracle;
//   - where a description fixes the result only up to an order or a number kind the model returns ONE
//     admissible result and counts Ticks[TickAmb]: the harness then compares with the relation that the
//     description does promise when the ambiguous call is the last one, and excludes the case otherwise;
//   - WildV stands for a component the description leaves open (Ticks[TickWild] is counted).

import (
	"fmt"
	"iter"
	"math"
	"regexp"
	"sort"
	"strconv"
	"strings"
	"unicode/utf8"
)

const (
	// TickAmb counts results that are fixed only up to an order / tie break / number kind.
	TickAmb = "c07.ambiguous"
	// TickWild counts WildV components handed out.
	TickWild = "c07.wild"
	// TickCutEmpty counts cut calls with an empty receiver, pos 0 and len != 0 (shape of finding F07a).
	TickCutEmpty = "c07.cut-empty-receiver"
	// TickIirApplyFilter counts iirApply calls whose map has a bad 'filter' entry (shape of finding F07e).
	TickIirApplyFilter = "c07.iirApply-bad-filter"
)

// WildV is a component of a result that the description leaves open. Every operation on it fails, so a
// run that consumed one ends in an error and is recognised by Ticks[TickWild] > 0.
type WildV struct{}

func (in *Interp) amb()      { in.Ticks[TickAmb]++ }
func (in *Interp) wild() Val { in.Ticks[TickWild]++; return WildV{} }

// fullState is the state of the full library model that does not fit into Interp.
type fullState struct {
	// strict: every result of a built-in is forced deeply at once (the eager reference of C07)
	strict bool
	// ambOrder: lists whose elements are right but whose order the description leaves open
	ambOrder map[*ListV]bool
	// emulate: known findings whose behaviour the model reproduces (used by the classifiers of C07 only)
	emulate map[string]bool
}

var fullStates = map[*Interp]*fullState{}

// Emulate makes the model reproduce the behaviour of a known finding ("F07a", "F07e") at calls of
// exactly the finding's input shape. The C07 harness uses it to decide whether a deviation is explained
// by that finding alone.
func Emulate(in *Interp, finding string, on bool) { fullStates[in].emulate[finding] = on }

// SetStrict switches the eager mode of the full library model on or off.
func SetStrict(in *Interp, on bool) { fullStates[in].strict = on }

// ambList counts an ambiguity that is only the order of the elements of l. A later order/orderRev/
// orderLess call on l whose sort has no ties between different items removes it again, because its
// result does not depend on the order of its input.
func (in *Interp) ambList(l *ListV) *ListV {
	st := fullStates[in]
	if in.Ticks[TickAmb] == 0 {
		for k := range st.ambOrder {
			delete(st.ambOrder, k)
		}
	}
	in.Ticks[TickAmb]++
	st.ambOrder[l] = true
	return l
}

// canonicalised is called by the sorting methods when their result is unique.
func (in *Interp) canonicalised(src *ListV) {
	st := fullStates[in]
	if st.ambOrder[src] && in.Ticks[TickAmb] > 0 {
		delete(st.ambOrder, src)
		in.Ticks[TickAmb]--
	}
}

// InstallFull adds the full built-in library model to in.
func InstallFull(in *Interp) {
	st := &fullState{ambOrder: map[*ListV]bool{}, emulate: map[string]bool{}}
	fullStates[in] = st
	installListFull(in)
	installStringFull(in)
	installMapFull(in)
	installStaticFull(in)
	installScalarMethods(in)
	// no static function looks at a component that the descriptions leave open
	for name, f := range in.Statics {
		f := f
		in.Statics[name] = func(in *Interp, a []Val) (Val, *Err) {
			for _, v := range a {
				if _, ok := v.(WildV); ok {
					in.unspec("a function applied to a component that the description leaves open")
					return nil, E("unspecified component")
				}
			}
			return f(in, a)
		}
	}
	for name, m := range in.Methods {
		m := m
		in.Methods[name] = Method{Arity: m.Arity, Fn: func(in *Interp, r Val, a []Val) (Val, *Err) {
			v, err := m.Fn(in, r, a)
			if err != nil || !st.strict {
				return v, err
			}
			fv, err := DeepForce(v)
			if err != nil {
				return nil, err
			}
			if l, ok := v.(*ListV); ok && st.ambOrder[l] {
				delete(st.ambOrder, l)
				st.ambOrder[fv.(*ListV)] = true
			}
			return fv, nil
		}}
	}
}

// ---------------------------------------------------------------------------------------------
// helpers

func wantFn(v Val, arity int, what string) (*CloV, *Err) {
	c, ok := v.(*CloV)
	if !ok {
		return nil, E(what + ": argument needs to be a function")
	}
	if c.Arity != arity {
		return nil, E(what + ": function needs " + strconv.Itoa(arity) + " arguments")
	}
	return c, nil
}

func (in *Interp) callBool(f *CloV, what string, args ...Val) (bool, *Err) {
	v, err := in.Apply(f, args)
	if err != nil {
		return false, err
	}
	b, ok := v.(BoolV)
	if !ok {
		return false, E(what + ": function does not return a bool")
	}
	return bool(b), nil
}

func cp(els []Val) []Val { return append([]Val{}, els...) }

func mapOf(kv ...interface{}) *MapV {
	m := &MapV{}
	for i := 0; i+1 < len(kv); i += 2 {
		m.Keys = append(m.Keys, kv[i].(string))
		m.Vals = append(m.Vals, kv[i+1])
	}
	return m
}

// evidentFloat reports whether the text of f is the same under every reasonable formatting: finite,
// not integral, at most 7 digits, no exponent.
func evidentFloat(f float64) (string, bool) {
	s := strconv.FormatFloat(f, 'g', -1, 64)
	if math.IsNaN(f) || math.IsInf(f, 0) || f == math.Trunc(f) || strings.ContainsAny(s, "eE") {
		return s, false
	}
	digits := 0
	for _, c := range s {
		if c >= '0' && c <= '9' {
			digits++
		}
	}
	return s, digits <= 7
}

// str is the checked string form: list as "[a, b]", map as "{k:v}"; float formats beyond the evident
// ones, maps with more than one entry (iteration order) and closures are unspecified.
func (in *Interp) str(v Val) (string, *Err) {
	switch x := v.(type) {
	case IntV:
		return strconv.FormatInt(int64(x), 10), nil
	case FloatV:
		s, ok := evidentFloat(float64(x))
		if !ok {
			in.unspec("text of a float that is integral, needs an exponent or more than 7 digits")
		}
		return s, nil
	case BoolV:
		if x {
			return "true", nil
		}
		return "false", nil
	case StrV:
		return x.S, nil
	case *CloV:
		in.unspec("text of a closure")
		return "func" + strconv.Itoa(x.Arity), nil
	case *ListV:
		els, err := x.Force()
		if err != nil {
			return "", err
		}
		parts := make([]string, len(els))
		for i, e := range els {
			s, err := in.str(e)
			if err != nil {
				return "", err
			}
			parts[i] = s
		}
		return "[" + strings.Join(parts, ", ") + "]", nil
	case *MapV:
		if len(x.Keys) > 1 {
			in.unspec("text of a map with more than one entry (iteration order)")
		}
		parts := make([]string, len(x.Keys))
		for i, k := range x.Keys {
			s, err := in.str(x.Vals[i])
			if err != nil {
				return "", err
			}
			parts[i] = k + ":" + s
		}
		return "{" + strings.Join(parts, ", ") + "}", nil
	}
	return "", E("no string form")
}

func isNum(v Val) bool { _, ok, _ := num(v); return ok }
func isStr(v Val) bool { _, ok := v.(StrV); return ok }
func canonEq(a, b Val) bool {
	fa, e1 := DeepForce(a)
	fb, e2 := DeepForce(b)
	if e1 != nil || e2 != nil {
		return false
	}
	return Canon(fa) == Canon(fb)
}

// comparableKeys: "<" is defined on a set of at least two values iff all are numbers or all are strings.
func comparableKeys(keys []Val) bool {
	allN, allS := true, true
	for _, k := range keys {
		allN = allN && isNum(k)
		allS = allS && isStr(k)
	}
	return allN || allS
}

// ---------------------------------------------------------------------------------------------
// lists

func installListFull(in *Interp) {
	M := in.Methods

	M["list.top"] = Method{1, func(in *Interp, r Val, a []Val) (Val, *Err) {
		k, ok := a[0].(IntV)
		if !ok {
			return nil, E("top needs an int")
		}
		if k < 0 {
			in.unspec("top(n) with negative n")
		}
		src := r.(*ListV)
		return &ListV{Iter: func(yield func(Val, *Err) bool) {
			if k <= 0 {
				return
			}
			i := IntV(0)
			src.Iter(func(v Val, err *Err) bool {
				if !yield(v, err) {
					return false
				}
				i++
				return i < k
			})
		}}, nil
	}}
	M["list.skip"] = Method{1, func(in *Interp, r Val, a []Val) (Val, *Err) {
		k, ok := a[0].(IntV)
		if !ok {
			return nil, E("skip needs an int")
		}
		src := r.(*ListV)
		return &ListV{Iter: func(yield func(Val, *Err) bool) {
			i := IntV(0)
			src.Iter(func(v Val, err *Err) bool {
				if i < k {
					i++
					if err != nil {
						return yield(nil, err)
					}
					return true
				}
				return yield(v, err)
			})
		}}, nil
	}}
	M["list.last"] = Method{0, func(in *Interp, r Val, a []Val) (Val, *Err) {
		els, err := r.(*ListV).Force()
		if err != nil {
			return nil, err
		}
		if len(els) == 0 {
			return nil, E("last on empty list")
		}
		return els[len(els)-1], nil
	}}
	M["list.single"] = Method{0, func(in *Interp, r Val, a []Val) (Val, *Err) {
		var first Val
		n := 0
		var rerr *Err
		r.(*ListV).Iter(func(v Val, err *Err) bool {
			if err != nil {
				rerr = err
				return false
			}
			n++
			if n == 1 {
				first = v
				return true
			}
			return false
		})
		if rerr != nil {
			return nil, rerr
		}
		if n == 0 {
			return nil, E("single on empty list")
		}
		if n > 1 {
			// the method is named single (and the property lists it so), its description says "Returns
			// the first item in the list."
			in.unspec("single() on a list with more than one item (description: 'Returns the first item')")
			return nil, E("single: more than one item")
		}
		return first, nil
	}}
	M["list.reverse"] = Method{0, func(in *Interp, r Val, a []Val) (Val, *Err) {
		els, err := r.(*ListV).Force()
		if err != nil {
			return nil, err
		}
		out := make([]Val, len(els))
		for i, e := range els {
			out[len(els)-1-i] = e
		}
		return Eager(out), nil
	}}
	M["list.eval"] = Method{0, func(in *Interp, r Val, a []Val) (Val, *Err) {
		els, err := r.(*ListV).Force()
		if err != nil {
			return nil, err
		}
		return Eager(els), nil
	}}
	M["list.set"] = Method{2, func(in *Interp, r Val, a []Val) (Val, *Err) {
		i, ok := a[0].(IntV)
		if !ok {
			return nil, E("set needs an int index")
		}
		els, err := r.(*ListV).Force()
		if err != nil {
			return nil, err
		}
		if i < 0 || int(i) >= len(els) {
			return nil, E("set: index out of range")
		}
		out := cp(els)
		out[i] = a[1]
		return Eager(out), nil
	}}
	M["list.string"] = Method{0, func(in *Interp, r Val, a []Val) (Val, *Err) {
		s, err := in.str(r)
		if err != nil {
			return nil, err
		}
		return StrV{S: s}, nil
	}}
	M["list.mean"] = Method{0, func(in *Interp, r Val, a []Val) (Val, *Err) {
		els, err := r.(*ListV).Force()
		if err != nil {
			return nil, err
		}
		if len(els) == 0 {
			return nil, E("mean of empty list")
		}
		acc := els[0]
		for _, e := range els[1:] {
			acc, err = in.BinOp("+", acc, e)
			if err != nil {
				return nil, err
			}
		}
		return in.BinOp("/", acc, IntV(len(els)))
	}}
	extreme := func(name string, pickLess bool) Method {
		return Method{0, func(in *Interp, r Val, a []Val) (Val, *Err) {
			els, err := r.(*ListV).Force()
			if err != nil {
				return nil, err
			}
			if len(els) == 0 {
				return nil, E(name + " of empty list")
			}
			m := els[0]
			for _, v := range els[1:] {
				var better, other bool
				if pickLess {
					better, err = in.Less(v, m)
				} else {
					better, err = in.Less(m, v)
				}
				if err != nil {
					return nil, err
				}
				if pickLess {
					other, err = in.Less(m, v)
				} else {
					other, err = in.Less(v, m)
				}
				if err != nil {
					return nil, err
				}
				if !better && !other && !canonEq(m, v) {
					in.unspec(name + "() with equal items of different kind (1 and 1.0)")
				}
				if better {
					m = v
				}
			}
			return m, nil
		}}
	}
	M["list.min"] = extreme("min", true)
	M["list.max"] = extreme("max", false)

	M["list.minMax"] = Method{1, func(in *Interp, r Val, a []Val) (Val, *Err) {
		f, ferr := wantFn(a[0], 1, "minMax")
		if ferr != nil {
			return nil, ferr
		}
		els, err := r.(*ListV).Force()
		if err != nil {
			return nil, err
		}
		if len(els) == 0 {
			return mapOf("min", in.wild(), "max", in.wild(), "minItem", in.wild(), "maxItem", in.wild(), "valid", BoolV(false)), nil
		}
		keys := make([]Val, len(els))
		for i, e := range els {
			keys[i], err = in.Apply(f, []Val{e})
			if err != nil {
				return nil, err
			}
		}
		lo, hi := 0, 0
		for i := 1; i < len(els); i++ {
			l, err := in.Less(keys[i], keys[lo])
			if err != nil {
				return nil, err
			}
			if l {
				lo = i
			}
			g, err := in.Less(keys[hi], keys[i])
			if err != nil {
				return nil, err
			}
			if g {
				hi = i
			}
		}
		// several items attaining the extreme: the description does not say which one is reported
		pick := func(best int) (Val, Val) {
			kv, iv := keys[best], els[best]
			for i := range els {
				if i == best {
					continue
				}
				l1, _ := in.Less(keys[i], keys[best])
				l2, _ := in.Less(keys[best], keys[i])
				if !l1 && !l2 {
					if !canonEq(keys[i], keys[best]) {
						kv = nil
					}
					if !canonEq(els[i], els[best]) {
						iv = nil
					}
				}
			}
			if kv == nil {
				kv = in.wild()
			}
			if iv == nil {
				iv = in.wild()
			}
			return kv, iv
		}
		minV, minI := pick(lo)
		maxV, maxI := pick(hi)
		return mapOf("min", minV, "max", maxV, "minItem", minI, "maxItem", maxI, "valid", BoolV(true)), nil
	}}
	M["list.mapReduce"] = Method{2, func(in *Interp, r Val, a []Val) (Val, *Err) {
		f, ferr := wantFn(a[1], 2, "mapReduce")
		if ferr != nil {
			return nil, ferr
		}
		els, err := r.(*ListV).Force()
		if err != nil {
			return nil, err
		}
		acc := a[0]
		for _, e := range els {
			acc, err = in.Apply(f, []Val{acc, e})
			if err != nil {
				return nil, err
			}
		}
		return acc, nil
	}}
	M["list.visit"] = Method{2, func(in *Interp, r Val, a []Val) (Val, *Err) {
		f, ferr := wantFn(a[1], 2, "visit")
		if ferr != nil {
			return nil, ferr
		}
		els, err := r.(*ListV).Force()
		if err != nil {
			return nil, err
		}
		vis := a[0]
		for _, e := range els {
			vis, err = in.Apply(f, []Val{vis, e})
			if err != nil {
				return nil, err
			}
		}
		return vis, nil
	}}
	search := func(name string, index bool) Method {
		return Method{1, func(in *Interp, r Val, a []Val) (Val, *Err) {
			p, ferr := wantFn(a[0], 1, name)
			if ferr != nil {
				return nil, ferr
			}
			var rerr *Err
			found := -1
			i := 0
			r.(*ListV).Iter(func(v Val, err *Err) bool {
				if err != nil {
					rerr = err
					return false
				}
				b, err := in.callBool(p, name, v)
				if err != nil {
					rerr = err
					return false
				}
				if b {
					found = i
					return false
				}
				i++
				return true
			})
			if rerr != nil {
				return nil, rerr
			}
			if index {
				return IntV(found), nil
			}
			return BoolV(found >= 0), nil
		}}
	}
	M["list.indexWhere"] = search("indexWhere", true)
	M["list.present"] = search("present", false)

	M["list.replaceList"] = Method{1, func(in *Interp, r Val, a []Val) (Val, *Err) {
		f, ferr := wantFn(a[0], 1, "replaceList")
		if ferr != nil {
			return nil, ferr
		}
		return in.Apply(f, []Val{r})
	}}

	// --- lazy windows ---
	M["list.combine"] = Method{1, func(in *Interp, r Val, a []Val) (Val, *Err) {
		f, ferr := wantFn(a[0], 2, "combine")
		if ferr != nil {
			return nil, ferr
		}
		return windows(in, r.(*ListV), 2, func(w []Val) (Val, *Err) { return in.Apply(f, []Val{w[0], w[1]}) }), nil
	}}
	M["list.combine3"] = Method{1, func(in *Interp, r Val, a []Val) (Val, *Err) {
		f, ferr := wantFn(a[0], 3, "combine3")
		if ferr != nil {
			return nil, ferr
		}
		return windows(in, r.(*ListV), 3, func(w []Val) (Val, *Err) { return in.Apply(f, []Val{w[0], w[1], w[2]}) }), nil
	}}
	M["list.combineN"] = Method{2, func(in *Interp, r Val, a []Val) (Val, *Err) {
		k, ok := a[0].(IntV)
		if !ok {
			return nil, E("combineN needs an int")
		}
		if k < 1 {
			return nil, E("combineN needs n > 0")
		}
		f, ferr := wantFn(a[1], 1, "combineN")
		if ferr != nil {
			return nil, ferr
		}
		return windows(in, r.(*ListV), int(k), func(w []Val) (Val, *Err) { return in.Apply(f, []Val{Eager(cp(w))}) }), nil
	}}
	M["list.number"] = Method{1, func(in *Interp, r Val, a []Val) (Val, *Err) {
		f, ferr := wantFn(a[0], 2, "number")
		if ferr != nil {
			return nil, ferr
		}
		src := r.(*ListV)
		return &ListV{Iter: func(yield func(Val, *Err) bool) {
			i := IntV(0)
			src.Iter(func(v Val, err *Err) bool {
				if err != nil {
					return yield(nil, err)
				}
				res, err := in.Apply(f, []Val{i, v})
				i++
				return yield(res, err)
			})
		}}, nil
	}}
	M["list.compact"] = Method{1, func(in *Interp, r Val, a []Val) (Val, *Err) {
		eq, ferr := wantFn(a[0], 2, "compact")
		if ferr != nil {
			return nil, ferr
		}
		src := r.(*ListV)
		return &ListV{Iter: func(yield func(Val, *Err) bool) {
			have := false
			var kept, prev Val
			prevKept := true
			src.Iter(func(v Val, err *Err) bool {
				if err != nil {
					return yield(nil, err)
				}
				if !have {
					have, kept, prev = true, v, v
					return yield(v, nil)
				}
				same, err := in.callBool(eq, "compact", kept, v)
				if !prevKept {
					// "called for each successive pair of items": the pair (previous item, item) and the
					// pair (last kept item, item) must give the same answer, else the two readings of
					// the description differ
					same2, err2 := in.callBool(eq, "compact", prev, v)
					if (err == nil) != (err2 == nil) || (err == nil && same != same2) {
						in.unspec("compact with a function that is not an equivalence on the items (previous item vs. last kept item)")
					}
				}
				prev = v
				if err != nil {
					return yield(nil, err)
				}
				if same {
					prevKept = false
					return true
				}
				kept, prevKept = v, true
				return yield(v, nil)
			})
		}}, nil
	}}
	M["list.cross"] = Method{2, func(in *Interp, r Val, a []Val) (Val, *Err) {
		f, ferr := wantFn(a[1], 2, "cross")
		if ferr != nil {
			return nil, ferr
		}
		other, ok := a[0].(*ListV)
		if !ok {
			return nil, E("cross needs a list")
		}
		src := r.(*ListV)
		return &ListV{Iter: func(yield func(Val, *Err) bool) {
			src.Iter(func(x Val, err *Err) bool {
				if err != nil {
					return yield(nil, err)
				}
				goOn := true
				other.Iter(func(y Val, err *Err) bool {
					if err != nil {
						goOn = yield(nil, err)
						return goOn
					}
					goOn = yield(in.Apply(f, []Val{x, y}))
					return goOn
				})
				return goOn
			})
		}}, nil
	}}
	M["list.merge"] = Method{2, func(in *Interp, r Val, a []Val) (Val, *Err) {
		less, ferr := wantFn(a[1], 2, "merge")
		if ferr != nil {
			return nil, ferr
		}
		other, ok := a[0].(*ListV)
		if !ok {
			return nil, E("merge needs a list")
		}
		src := r.(*ListV)
		return &ListV{Iter: func(yield func(Val, *Err) bool) {
			nextA, stopA := iter.Pull2(iter.Seq2[Val, *Err](src.Iter))
			defer stopA()
			nextB, stopB := iter.Pull2(iter.Seq2[Val, *Err](other.Iter))
			defer stopB()
			x, xe, okA := nextA()
			y, ye, okB := nextB()
			for okA && okB {
				if xe != nil {
					if !yield(nil, xe) {
						return
					}
					x, xe, okA = nextA()
					continue
				}
				if ye != nil {
					if !yield(nil, ye) {
						return
					}
					y, ye, okB = nextB()
					continue
				}
				takeA, err := in.callBool(less, "merge", x, y)
				if err != nil {
					if !yield(nil, err) {
						return
					}
					// after a failing comparison nothing sensible can follow
					return
				}
				if takeA {
					if !yield(x, nil) {
						return
					}
					x, xe, okA = nextA()
				} else {
					if !yield(y, nil) {
						return
					}
					y, ye, okB = nextB()
				}
			}
			for okA {
				if !yield(x, xe) {
					return
				}
				x, xe, okA = nextA()
			}
			for okB {
				if !yield(y, ye) {
					return
				}
				y, ye, okB = nextB()
			}
		}}, nil
	}}
	iirStage := func(in *Interp, src *ListV, first func(x Val) (Val, *Err), next func(prevItem, x, last Val) (Val, *Err)) *ListV {
		return &ListV{Iter: func(yield func(Val, *Err) bool) {
			have := false
			var prevItem, last Val
			src.Iter(func(x Val, err *Err) bool {
				if err != nil {
					return yield(nil, err)
				}
				if !have {
					have = true
					last, err = first(x)
				} else {
					last, err = next(prevItem, x, last)
				}
				prevItem = x
				return yield(last, err)
			})
		}}
	}
	M["list.iir"] = Method{2, func(in *Interp, r Val, a []Val) (Val, *Err) {
		init, ferr := wantFn(a[0], 1, "iir")
		if ferr != nil {
			return nil, ferr
		}
		f, ferr := wantFn(a[1], 2, "iir")
		if ferr != nil {
			return nil, ferr
		}
		return iirStage(in, r.(*ListV),
			func(x Val) (Val, *Err) { return in.Apply(init, []Val{x}) },
			func(_, x, last Val) (Val, *Err) { return in.Apply(f, []Val{x, last}) }), nil
	}}
	M["list.iirCombine"] = Method{2, func(in *Interp, r Val, a []Val) (Val, *Err) {
		init, ferr := wantFn(a[0], 1, "iirCombine")
		if ferr != nil {
			return nil, ferr
		}
		f, ferr := wantFn(a[1], 3, "iirCombine")
		if ferr != nil {
			return nil, ferr
		}
		return iirStage(in, r.(*ListV),
			func(x Val) (Val, *Err) { return in.Apply(init, []Val{x}) },
			func(p, x, last Val) (Val, *Err) { return in.Apply(f, []Val{p, x, last}) }), nil
	}}
	M["list.iirApply"] = Method{1, func(in *Interp, r Val, a []Val) (Val, *Err) {
		m, ok := a[0].(*MapV)
		if !ok {
			return nil, E("iirApply needs a map")
		}
		iv, ok := m.Get("initial")
		if !ok {
			return nil, E("iirApply: function initial is missing")
		}
		init, ferr := wantFn(iv, 1, "iirApply.initial")
		if ferr != nil {
			return nil, ferr
		}
		fv, ok := m.Get("filter")
		var f *CloV
		if ok {
			f, ferr = wantFn(fv, 3, "iirApply.filter")
		} else {
			ferr = E("iirApply: function filter is missing")
		}
		if ferr != nil {
			// classifier support: the shape of finding F07e is "bad filter entry"
			in.Ticks[TickIirApplyFilter]++
			if !fullStates[in].emulate["F07e"] {
				return nil, ferr
			}
			// emulation: the bad entry goes unnoticed until the filter is needed for the second item
			bad := ferr
			return iirStage(in, r.(*ListV),
				func(x Val) (Val, *Err) { return in.Apply(init, []Val{x}) },
				func(p, x, last Val) (Val, *Err) { return nil, bad }), nil
		}
		return iirStage(in, r.(*ListV),
			func(x Val) (Val, *Err) { return in.Apply(init, []Val{x}) },
			func(p, x, last Val) (Val, *Err) { return in.Apply(f, []Val{p, x, last}) }), nil
	}}
	M["list.fsm"] = Method{1, func(in *Interp, r Val, a []Val) (Val, *Err) {
		f, ferr := wantFn(a[0], 2, "fsm")
		if ferr != nil {
			return nil, ferr
		}
		return iirStage(in, r.(*ListV),
			func(x Val) (Val, *Err) { return in.Apply(f, []Val{mapOf("state", IntV(0)), x}) },
			func(_, x, last Val) (Val, *Err) { return in.Apply(f, []Val{last, x}) }), nil
	}}

	// --- sorting ---
	order := func(name string, rev bool) Method {
		return Method{1, func(in *Interp, r Val, a []Val) (Val, *Err) {
			f, ferr := wantFn(a[0], 1, name)
			if ferr != nil {
				return nil, ferr
			}
			els, err := r.(*ListV).Force()
			if err != nil {
				return nil, err
			}
			keys := make([]Val, len(els))
			for i, e := range els {
				keys[i], err = in.Apply(f, []Val{e})
				if err != nil {
					if len(els) < 2 {
						in.unspec(name + " on fewer than two items with a failing key function (no comparison is needed)")
					}
					return nil, err
				}
			}
			if len(els) < 2 {
				return Eager(cp(els)), nil
			}
			if !comparableKeys(keys) {
				return nil, E(name + ": keys are not comparable")
			}
			idx := make([]int, len(els))
			for i := range idx {
				idx[i] = i
			}
			lessK := func(i, j int) bool {
				l, _ := in.Less(keys[i], keys[j])
				return l
			}
			sort.SliceStable(idx, func(p, q int) bool {
				if rev {
					return lessK(idx[q], idx[p])
				}
				return lessK(idx[p], idx[q])
			})
			out := make([]Val, len(els))
			ties := false
			for p, i := range idx {
				out[p] = els[i]
				if p > 0 {
					j := idx[p-1]
					if !lessK(i, j) && !lessK(j, i) && !canonEq(els[i], els[j]) {
						ties = true // different items with equal keys: stability is not promised
					}
				}
			}
			if ties {
				in.amb()
			} else {
				in.canonicalised(r.(*ListV))
			}
			return Eager(out), nil
		}}
	}
	M["list.order"] = order("order", false)
	M["list.orderRev"] = order("orderRev", true)
	M["list.orderLess"] = Method{1, func(in *Interp, r Val, a []Val) (Val, *Err) {
		f, ferr := wantFn(a[0], 2, "orderLess")
		if ferr != nil {
			return nil, ferr
		}
		els, err := r.(*ListV).Force()
		if err != nil {
			return nil, err
		}
		n := len(els)
		if n < 2 {
			return Eager(cp(els)), nil
		}
		// the function on every ordered pair
		lt := make([][]bool, n)
		good, bad := 0, 0
		for i := range els {
			lt[i] = make([]bool, n)
			for j := range els {
				b, err := in.callBool(f, "orderLess", els[i], els[j])
				if err != nil {
					bad++
					continue
				}
				good++
				lt[i][j] = b
			}
		}
		if good == 0 {
			return nil, E("orderLess: the function fails or does not return a bool on every pair")
		}
		if bad > 0 {
			in.unspec("orderLess with a function that fails on some pairs only (which pairs are compared is not specified)")
			return nil, E("orderLess: function failed")
		}
		if !strictWeakOrder(lt) {
			in.unspec("orderLess with a function that is not a strict weak order on the items")
		}
		idx := make([]int, n)
		for i := range idx {
			idx[i] = i
		}
		sort.SliceStable(idx, func(p, q int) bool { return lt[idx[p]][idx[q]] })
		out := make([]Val, n)
		ties := false
		for p, i := range idx {
			out[p] = els[i]
			if p > 0 {
				j := idx[p-1]
				if !lt[i][j] && !lt[j][i] && !canonEq(els[i], els[j]) {
					ties = true
				}
			}
		}
		if ties {
			in.amb()
		} else {
			in.canonicalised(r.(*ListV))
		}
		return Eager(out), nil
	}}

	// --- grouping ---
	groupHash := func(name string, key func(in *Interp, v Val) (string, Val, *Err)) Method {
		return Method{1, func(in *Interp, r Val, a []Val) (Val, *Err) {
			f, ferr := wantFn(a[0], 1, name)
			if ferr != nil {
				return nil, ferr
			}
			els, err := r.(*ListV).Force()
			if err != nil {
				return nil, err
			}
			groups := map[string][]Val{}
			keyVal := map[string]Val{}
			var orderOfKeys []string
			for _, e := range els {
				kv, err := in.Apply(f, []Val{e})
				if err != nil {
					return nil, err
				}
				ks, k, err := key(in, kv)
				if err != nil {
					return nil, err
				}
				if _, ok := groups[ks]; !ok {
					orderOfKeys = append(orderOfKeys, ks)
					keyVal[ks] = k
				}
				groups[ks] = append(groups[ks], e)
			}
			out := make([]Val, 0, len(orderOfKeys))
			for _, ks := range orderOfKeys {
				out = append(out, mapOf("key", keyVal[ks], "values", Eager(groups[ks])))
			}
			res := Eager(out)
			if len(orderOfKeys) > 1 {
				in.ambList(res) // order of the groups is not promised
			}
			return res, nil
		}}
	}
	stringKey := func(in *Interp, v Val) (string, Val, *Err) {
		s, err := in.str(v)
		if err != nil {
			return "", nil, err
		}
		return s, StrV{S: s}, nil
	}
	intKey := func(name string) func(in *Interp, v Val) (string, Val, *Err) {
		return func(in *Interp, v Val) (string, Val, *Err) {
			i, ok := v.(IntV)
			if !ok {
				return "", nil, E(name + " requires an int as key")
			}
			return strconv.FormatInt(int64(i), 10), i, nil
		}
	}
	M["list.groupByString"] = groupHash("groupByString", stringKey)
	M["list.groupByInt"] = groupHash("groupByInt", intKey("groupByInt"))
	M["list.groupByEqual"] = Method{1, func(in *Interp, r Val, a []Val) (Val, *Err) {
		f, ferr := wantFn(a[0], 1, "groupByEqual")
		if ferr != nil {
			return nil, ferr
		}
		els, err := r.(*ListV).Force()
		if err != nil {
			return nil, err
		}
		var keys []Val
		var groups [][]Val
		for _, e := range els {
			k, err := in.Apply(f, []Val{e})
			if err != nil {
				return nil, err
			}
			at := -1
			for g, gk := range keys {
				eq, err := in.Equal(gk, k)
				if err != nil {
					return nil, err
				}
				if eq {
					at = g
					break
				}
			}
			if at < 0 {
				keys = append(keys, k)
				groups = append(groups, []Val{e})
			} else {
				groups[at] = append(groups[at], e)
			}
		}
		out := make([]Val, len(keys))
		for g := range keys {
			out[g] = mapOf("key", keys[g], "values", Eager(groups[g]))
		}
		return Eager(out), nil
	}}
	unique := func(name string, key func(in *Interp, v Val) (string, Val, *Err)) Method {
		return Method{1, func(in *Interp, r Val, a []Val) (Val, *Err) {
			f, ferr := wantFn(a[0], 1, name)
			if ferr != nil {
				return nil, ferr
			}
			els, err := r.(*ListV).Force()
			if err != nil {
				return nil, err
			}
			seen := map[string]bool{}
			var out []Val
			for _, e := range els {
				kv, err := in.Apply(f, []Val{e})
				if err != nil {
					return nil, err
				}
				ks, k, err := key(in, kv)
				if err != nil {
					return nil, err
				}
				if !seen[ks] {
					seen[ks] = true
					out = append(out, k)
				}
			}
			res := Eager(out)
			if len(out) > 1 {
				in.ambList(res)
			}
			return res, nil
		}}
	}
	M["list.uniqueString"] = unique("uniqueString", stringKey)
	M["list.uniqueInt"] = unique("uniqueInt", intKey("uniqueInt"))

	// --- moving windows ---
	M["list.movingWindow"] = Method{1, func(in *Interp, r Val, a []Val) (Val, *Err) {
		f, ferr := wantFn(a[0], 1, "movingWindow")
		if ferr != nil {
			return nil, ferr
		}
		els, err := r.(*ListV).Force()
		if err != nil {
			return nil, err
		}
		keys := make([]float64, len(els))
		for i, e := range els {
			kv, err := in.Apply(f, []Val{e})
			if err != nil {
				return nil, err
			}
			k, ok, _ := num(kv)
			if !ok {
				return nil, E("movingWindow: function needs to return a number")
			}
			keys[i] = k
		}
		out := make([]Val, len(els))
		start := 0
		for i := range els {
			// reading A: the window start moves forward while the first item is not close to item i
			for math.Abs(keys[i]-keys[start]) > 1 {
				start++
			}
			// reading B: the longest run of items ending at i that are all close to item i
			b := i
			for b > 0 && math.Abs(keys[i]-keys[b-1]) < 1 {
				b--
			}
			for j := 0; j <= i; j++ {
				if math.Abs(keys[i]-keys[j]) == 1 {
					in.unspec("movingWindow with two keys at distance exactly 1 (description: smaller than 1, code: not greater than 1)")
				}
			}
			if b != start {
				in.unspec("movingWindow with keys that are not monotone (window = run of close items vs. start pointer that only moves forward)")
			}
			out[i] = Eager(cp(els[start : i+1]))
		}
		return Eager(out), nil
	}}
	M["list.movingWindowRemove"] = Method{1, func(in *Interp, r Val, a []Val) (Val, *Err) {
		p, ferr := wantFn(a[0], 1, "movingWindowRemove")
		if ferr != nil {
			return nil, ferr
		}
		els, err := r.(*ListV).Force()
		if err != nil {
			return nil, err
		}
		var out []Val
		var win []Val
		for _, e := range els {
			win = append(cp(win), e)
			for {
				if len(win) == 1 {
					// "if the sublist contains only one item, the sublist is added to the result": whether
					// the function is still called is not said; only matters if that call would fail
					if _, err := in.callBool(p, "movingWindowRemove", Eager(cp(win))); err != nil {
						in.unspec("movingWindowRemove with a function that fails on a one-item sublist")
					}
					break
				}
				drop, err := in.callBool(p, "movingWindowRemove", Eager(cp(win)))
				if err != nil {
					return nil, err
				}
				if !drop {
					break
				}
				win = cp(win[1:])
			}
			out = append(out, Eager(cp(win)))
		}
		return Eager(out), nil
	}}

	// --- multiUse ---
	M["list.multiUse"] = Method{1, func(in *Interp, r Val, a []Val) (Val, *Err) {
		m, ok := a[0].(*MapV)
		if !ok {
			return nil, E("multiUse needs a map")
		}
		fs := make([]*CloV, len(m.Keys))
		for i, v := range m.Vals {
			f, ferr := wantFn(v, 1, "multiUse")
			if ferr != nil {
				return nil, ferr
			}
			fs[i] = f
		}
		if len(fs) == 0 {
			return nil, E("multiUse needs at least one function")
		}
		src := r.(*ListV)
		nonEmpty := false
		src.Iter(func(Val, *Err) bool { nonEmpty = true; return false })
		res := &MapV{}
		var firstErr *Err
		for i, f := range fs {
			uses := 0
			view := &ListV{Iter: func(yield func(Val, *Err) bool) {
				uses++
				src.Iter(yield)
			}}
			v, err := in.Apply(f, []Val{view})
			if err == nil {
				v, err = DeepForce(v)
			}
			if uses > 1 {
				in.unspec("multiUse with a function that iterates the list more than once (documented single use)")
			}
			if uses == 0 && nonEmpty {
				in.unspec("multiUse with a function that never iterates the list (finding F06c of property C06: 5 s time-out)")
			}
			if err != nil && firstErr == nil {
				firstErr = err
			}
			res.Keys = append(res.Keys, m.Keys[i])
			res.Vals = append(res.Vals, v)
		}
		if firstErr != nil {
			return nil, firstErr
		}
		return res, nil
	}}
}

// windows is the lazy sliding window of combine / combine3 / combineN.
func windows(in *Interp, src *ListV, k int, f func(w []Val) (Val, *Err)) *ListV {
	return &ListV{Iter: func(yield func(Val, *Err) bool) {
		var win []Val
		src.Iter(func(v Val, err *Err) bool {
			if err != nil {
				return yield(nil, err)
			}
			win = append(win, v)
			if len(win) > k {
				win = win[1:]
			}
			if len(win) == k {
				return yield(f(win))
			}
			return true
		})
	}}
}

func strictWeakOrder(lt [][]bool) bool {
	n := len(lt)
	for i := 0; i < n; i++ {
		if lt[i][i] {
			return false
		}
		for j := 0; j < n; j++ {
			if lt[i][j] && lt[j][i] {
				return false
			}
			for k := 0; k < n; k++ {
				if lt[i][j] && lt[j][k] && !lt[i][k] {
					return false
				}
				// incomparability is transitive
				if !lt[i][j] && !lt[j][i] && !lt[j][k] && !lt[k][j] && (lt[i][k] || lt[k][i]) {
					return false
				}
			}
		}
	}
	return true
}

// SortedPermutation reports whether out is a permutation of xs without an inversion under less
// (the relation the descriptions of order, orderRev and orderLess promise).
func SortedPermutation(xs, out []Val, less func(a, b Val) bool) bool {
	if len(xs) != len(out) {
		return false
	}
	count := map[string]int{}
	for _, x := range xs {
		count[Canon(x)]++
	}
	for _, o := range out {
		count[Canon(o)]--
	}
	for _, c := range count {
		if c != 0 {
			return false
		}
	}
	for i := 0; i+1 < len(out); i++ {
		if less(out[i+1], out[i]) {
			return false
		}
	}
	return true
}

// ---------------------------------------------------------------------------------------------
// strings

var (
	reDecInt   = regexp.MustCompile(`^[+-]?[0-9]+$`)
	reDecFloat = regexp.MustCompile(`^[+-]?([0-9]+\.?[0-9]*|\.[0-9]+)([eE][+-]?[0-9]+)?$`)
)

func asciiOnly(s string) bool {
	for i := 0; i < len(s); i++ {
		if s[i] >= 0x80 {
			return false
		}
	}
	return true
}

// indexOfSub is the position of the first occurrence of sub in s, written out.
func indexOfSub(s, sub string) int {
	for i := 0; i+len(sub) <= len(s); i++ {
		if s[i:i+len(sub)] == sub {
			return i
		}
	}
	return -1
}

func splitAt(s, sep string) []string {
	var parts []string
	for {
		i := indexOfSub(s, sep)
		if i < 0 {
			return append(parts, s)
		}
		parts = append(parts, s[:i])
		s = s[i+len(sep):]
	}
}

func installStringFull(in *Interp) {
	M := in.Methods
	strArg := func(what string, v Val) (string, *Err) {
		s, ok := v.(StrV)
		if !ok {
			return "", E(what + " needs a string")
		}
		return s.S, nil
	}
	M["string.len"] = Method{0, func(in *Interp, r Val, a []Val) (Val, *Err) {
		s := r.(StrV).S
		if !asciiOnly(s) {
			in.unspec("len() of a non-ASCII string (bytes or characters)")
		}
		return IntV(len(s)), nil
	}}
	M["string.string"] = Method{0, func(in *Interp, r Val, a []Val) (Val, *Err) { return r, nil }}
	M["string.trim"] = Method{0, func(in *Interp, r Val, a []Val) (Val, *Err) {
		s := r.(StrV).S
		t := strings.Trim(s, " ")
		if t != strings.TrimSpace(t) {
			in.unspec("trim() of a string with other white space than spaces at its ends")
		}
		return StrV{S: t}, nil
	}}
	M["string.toLower"] = Method{0, func(in *Interp, r Val, a []Val) (Val, *Err) {
		return StrV{S: strings.ToLower(r.(StrV).S)}, nil
	}}
	M["string.toUpper"] = Method{0, func(in *Interp, r Val, a []Val) (Val, *Err) {
		return StrV{S: strings.ToUpper(r.(StrV).S)}, nil
	}}
	M["string.contains"] = Method{1, func(in *Interp, r Val, a []Val) (Val, *Err) {
		sub, err := strArg("contains", a[0])
		if err != nil {
			return nil, err
		}
		return BoolV(indexOfSub(r.(StrV).S, sub) >= 0), nil
	}}
	M["string.indexOf"] = Method{1, func(in *Interp, r Val, a []Val) (Val, *Err) {
		sub, err := strArg("indexOf", a[0])
		if err != nil {
			return nil, err
		}
		s := r.(StrV).S
		i := indexOfSub(s, sub)
		if i > 0 && !asciiOnly(s[:i]) {
			in.unspec("indexOf() behind non-ASCII characters (bytes or characters)")
		}
		return IntV(i), nil
	}}
	M["string.split"] = Method{1, func(in *Interp, r Val, a []Val) (Val, *Err) {
		sep, err := strArg("split", a[0])
		if err != nil {
			return nil, err
		}
		if sep == "" {
			in.unspec("split with an empty separator")
			return nil, E("split: empty separator")
		}
		parts := splitAt(r.(StrV).S, sep)
		out := make([]Val, len(parts))
		for i, p := range parts {
			out[i] = StrV{S: p}
		}
		return Eager(out), nil
	}}
	M["string.replace"] = Method{2, func(in *Interp, r Val, a []Val) (Val, *Err) {
		old, err := strArg("replace", a[0])
		if err != nil {
			return nil, err
		}
		nw, err := strArg("replace", a[1])
		if err != nil {
			return nil, err
		}
		if old == "" {
			in.unspec("replace with an empty old string")
			return nil, E("replace: empty old string")
		}
		return StrV{S: strings.Join(splitAt(r.(StrV).S, old), nw)}, nil
	}}
	M["string.cut"] = Method{2, func(in *Interp, r Val, a []Val) (Val, *Err) {
		p, ok1 := a[0].(IntV)
		l, ok2 := a[1].(IntV)
		if !ok1 || !ok2 {
			return nil, E("cut needs two ints")
		}
		s := r.(StrV).S
		if p < 0 {
			in.unspec("cut with a negative pos")
		}
		if l == 0 {
			in.unspec("cut with len 0 (description: length len; code: the rest)")
		}
		if !utf8.ValidString(s) {
			in.unspec("cut on invalid UTF-8")
		}
		if s == "" && p == 0 && l != 0 {
			in.Ticks[TickCutEmpty]++
			if fullStates[in].emulate["F07a"] {
				return StrV{S: "\uFFFD"}, nil
			}
		}
		runes := []rune(s)
		if p < 0 || int(p) >= len(runes) {
			return StrV{S: ""}, nil
		}
		end := len(runes)
		if l >= 0 && int(p)+int(l) < end {
			end = int(p) + int(l)
		}
		return StrV{S: string(runes[p:end])}, nil
	}}
	M["string.behind"] = Method{1, func(in *Interp, r Val, a []Val) (Val, *Err) {
		pre, err := strArg("behind", a[0])
		if err != nil {
			return nil, err
		}
		s := r.(StrV).S
		i := indexOfSub(s, pre)
		if i < 0 {
			in.unspec("behind with a prefix that does not occur")
			return StrV{S: ""}, nil
		}
		rest := s[i+len(pre):]
		if j := indexOfSub(rest, "\n"); j >= 0 {
			rest = rest[:j]
		}
		if rest != strings.TrimSpace(rest) {
			in.unspec("behind with white space around the result (trimmed or not)")
		}
		return StrV{S: rest}, nil
	}}
	M["string.behindList"] = Method{1, func(in *Interp, r Val, a []Val) (Val, *Err) {
		head, err := strArg("behindList", a[0])
		if err != nil {
			return nil, err
		}
		lines := splitAt(r.(StrV).S, "\n")
		for _, l := range append([]string{head}, lines...) {
			if l != strings.TrimSpace(l) {
				in.unspec("behindList with white space around a line (trimmed or not)")
			}
		}
		at := -1
		for i, l := range lines {
			if l == head {
				at = i
				break
			}
		}
		if at < 0 {
			in.unspec("behindList with a header line that does not occur")
			return Eager(nil), nil
		}
		var out []Val
		for _, l := range lines[at+1:] {
			if l == "" {
				break
			}
			out = append(out, StrV{S: l})
		}
		return Eager(out), nil
	}}
	M["string.toInt"] = Method{0, func(in *Interp, r Val, a []Val) (Val, *Err) {
		s := r.(StrV).S
		if !reDecInt.MatchString(s) {
			if _, err := strconv.ParseInt(s, 0, 64); err == nil {
				in.unspec("toInt on a number in non-decimal syntax")
			}
			return nil, E("toInt: not an int")
		}
		v := int64(0)
		neg := false
		for _, c := range s {
			switch c {
			case '-':
				neg = true
			case '+':
			default:
				if v > (math.MaxInt64-9)/10 {
					in.unspec("toInt out of range")
				}
				v = v*10 + int64(c-'0')
			}
		}
		if strings.HasPrefix(s, "+") {
			in.unspec("toInt with an explicit plus sign")
		}
		if neg {
			v = -v
		}
		return IntV(v), nil
	}}
	M["string.toFloat"] = Method{0, func(in *Interp, r Val, a []Val) (Val, *Err) {
		s := r.(StrV).S
		if !reDecFloat.MatchString(s) {
			if _, err := strconv.ParseFloat(s, 64); err == nil {
				in.unspec("toFloat on a number in non-decimal syntax (inf, nan, hex, underscores)")
			}
			return nil, E("toFloat: not a float")
		}
		f, err := strconv.ParseFloat(s, 64)
		if err != nil {
			in.unspec("toFloat out of range")
			return nil, E("toFloat: out of range")
		}
		if strings.HasPrefix(s, "+") || strings.HasPrefix(s, ".") || strings.HasSuffix(s, ".") {
			in.unspec("toFloat with a plus sign or without digits on one side of the point")
		}
		return FloatV(f), nil
	}}
}

// ---------------------------------------------------------------------------------------------
// maps

func installMapFull(in *Interp) {
	M := in.Methods
	M["map.get"] = Method{1, func(in *Interp, r Val, a []Val) (Val, *Err) {
		k, ok := a[0].(StrV)
		if !ok {
			return nil, E("get requires a string key")
		}
		if v, has := r.(*MapV).Get(k.S); has {
			return v, nil
		}
		return nil, E("key not found")
	}}
	M["map.isAvail"] = Method{-1, func(in *Interp, r Val, a []Val) (Val, *Err) {
		if len(a) != 1 {
			in.unspec("isAvail with other than one argument (description: key)")
		}
		all := true
		for _, v := range a {
			k, ok := v.(StrV)
			if !ok {
				return nil, E("isAvail requires a string")
			}
			if _, has := r.(*MapV).Get(k.S); !has {
				all = false
			}
		}
		return BoolV(all), nil
	}}
	M["map.list"] = Method{0, func(in *Interp, r Val, a []Val) (Val, *Err) {
		m := r.(*MapV)
		out := make([]Val, len(m.Keys))
		for i, k := range m.Keys {
			out[i] = mapOf("key", StrV{S: k}, "value", m.Vals[i])
		}
		res := Eager(out)
		if len(out) > 1 {
			in.ambList(res) // iteration order
		}
		return res, nil
	}}
	M["map.string"] = Method{0, func(in *Interp, r Val, a []Val) (Val, *Err) {
		s, err := in.str(r)
		if err != nil {
			return nil, err
		}
		return StrV{S: s}, nil
	}}
	M["map.eval"] = Method{0, func(in *Interp, r Val, a []Val) (Val, *Err) {
		m := r.(*MapV)
		return &MapV{Keys: append([]string{}, m.Keys...), Vals: cp(m.Vals)}, nil
	}}
	M["map.map"] = Method{1, func(in *Interp, r Val, a []Val) (Val, *Err) {
		f, ferr := wantFn(a[0], 2, "map")
		if ferr != nil {
			return nil, ferr
		}
		m := r.(*MapV)
		out := &MapV{}
		for i, k := range m.Keys {
			v, err := in.Apply(f, []Val{StrV{S: k}, m.Vals[i]})
			if err != nil {
				return nil, err
			}
			out.Keys = append(out.Keys, k)
			out.Vals = append(out.Vals, v)
		}
		return out, nil
	}}
	M["map.accept"] = Method{1, func(in *Interp, r Val, a []Val) (Val, *Err) {
		f, ferr := wantFn(a[0], 2, "accept")
		if ferr != nil {
			return nil, ferr
		}
		m := r.(*MapV)
		out := &MapV{}
		for i, k := range m.Keys {
			b, err := in.callBool(f, "accept", StrV{S: k}, m.Vals[i])
			if err != nil {
				return nil, err
			}
			if b {
				out.Keys = append(out.Keys, k)
				out.Vals = append(out.Vals, m.Vals[i])
			}
		}
		return out, nil
	}}
	M["map.replaceMap"] = Method{1, func(in *Interp, r Val, a []Val) (Val, *Err) {
		f, ferr := wantFn(a[0], 1, "replaceMap")
		if ferr != nil {
			return nil, ferr
		}
		return in.Apply(f, []Val{r})
	}}
	M["map.replace"] = Method{1, func(in *Interp, r Val, a []Val) (Val, *Err) {
		f, ferr := wantFn(a[0], 1, "replace")
		if ferr != nil {
			return nil, ferr
		}
		m := r.(*MapV)
		rv, err := in.Apply(f, []Val{m})
		if err != nil {
			return nil, err
		}
		rep, ok := rv.(*MapV)
		if !ok {
			return nil, E("replace: the function must return a map")
		}
		out := &MapV{}
		for i, k := range m.Keys {
			out.Keys = append(out.Keys, k)
			if nv, has := rep.Get(k); has {
				out.Vals = append(out.Vals, nv)
			} else {
				out.Vals = append(out.Vals, m.Vals[i])
			}
		}
		return out, nil
	}}
	M["map.combine"] = Method{2, func(in *Interp, r Val, a []Val) (Val, *Err) {
		f, ferr := wantFn(a[1], 2, "combine")
		if ferr != nil {
			return nil, ferr
		}
		o, ok := a[0].(*MapV)
		if !ok {
			return nil, E("combine requires a map")
		}
		m := r.(*MapV)
		out := &MapV{}
		for i, k := range m.Keys {
			ov, has := o.Get(k)
			if !has {
				in.unspec("combine with a key of the first map that the second map lacks (description: 'each key that is in both maps'; code: error)")
				return nil, E("combine: key missing in the second map")
			}
			v, err := in.Apply(f, []Val{m.Vals[i], ov})
			if err != nil {
				return nil, err
			}
			out.Keys = append(out.Keys, k)
			out.Vals = append(out.Vals, v)
		}
		return out, nil
	}}
}

// ---------------------------------------------------------------------------------------------
// static functions

func installStaticFull(in *Interp) {
	S := in.Statics
	one := func(name string, f func(in *Interp, v Val) (Val, *Err)) {
		S[name] = func(in *Interp, a []Val) (Val, *Err) {
			if len(a) != 1 {
				return nil, E(name + ": wrong number of arguments")
			}
			return f(in, a[0])
		}
	}
	one("string", func(in *Interp, v Val) (Val, *Err) {
		s, err := in.str(v)
		if err != nil {
			return nil, err
		}
		return StrV{S: s, Tainted: tainted(v)}, nil
	})
	one("isInt", func(in *Interp, v Val) (Val, *Err) { _, ok := v.(IntV); return BoolV(ok), nil })
	one("isFloat", func(in *Interp, v Val) (Val, *Err) { _, ok := v.(FloatV); return BoolV(ok), nil })
	one("float", func(in *Interp, v Val) (Val, *Err) {
		f, ok, _ := num(v)
		if !ok {
			return nil, E("float not allowed")
		}
		return FloatV(f), nil
	})
	one("int", func(in *Interp, v Val) (Val, *Err) {
		f, ok, isInt := num(v)
		if !ok {
			return nil, E("int not allowed")
		}
		if isInt {
			return v, nil
		}
		if f != math.Trunc(f) {
			in.unspec("int() of a float that is not integral (truncate, floor or round)")
		}
		if math.Abs(f) > 9e18 || math.IsNaN(f) {
			in.unspec("int() out of range")
		}
		return IntV(int64(f)), nil
	})
	one("abs", func(in *Interp, v Val) (Val, *Err) {
		switch x := v.(type) {
		case IntV:
			if x < 0 {
				return -x, nil
			}
			return x, nil
		case FloatV:
			if x < 0 {
				return -x, nil
			}
			return x, nil
		}
		return nil, E("abs not allowed")
	})
	one("sign", func(in *Interp, v Val) (Val, *Err) {
		f, ok, _ := num(v)
		if !ok {
			return nil, E("sign not allowed")
		}
		in.amb() // int or float result is not said
		switch {
		case f < 0:
			return IntV(-1), nil
		case f == 0:
			in.unspec("sign(0) (description: 'Otherwise 1 is returned', mathematics: 0)")
			return IntV(0), nil
		}
		return IntV(1), nil
	})
	one("sqr", func(in *Interp, v Val) (Val, *Err) {
		switch x := v.(type) {
		case IntV:
			return x * x, nil
		case FloatV:
			return x * x, nil
		}
		return nil, E("sqr not allowed")
	})
	one("round", func(in *Interp, v Val) (Val, *Err) {
		f, ok, isInt := num(v)
		if !ok {
			return nil, E("round not allowed")
		}
		if isInt {
			return v, nil
		}
		in.amb() // number kind of the result is not said
		lo := math.Floor(f)
		if f-lo == 0.5 {
			in.unspec("round() of a value exactly between two integers")
		}
		if f-lo < 0.5 {
			return IntV(int64(lo)), nil
		}
		return IntV(int64(lo) + 1), nil
	})
	integral := func(name string, g func(float64) float64) {
		one(name, func(in *Interp, v Val) (Val, *Err) {
			f, ok, _ := num(v)
			if !ok {
				return nil, E(name + " not allowed")
			}
			in.amb() // "integer value": int or float is not said
			return FloatV(g(f)), nil
		})
	}
	integral("floor", func(f float64) float64 {
		t := float64(int64(f))
		if t > f {
			t--
		}
		return t
	})
	integral("ceil", func(f float64) float64 {
		t := float64(int64(f))
		if t < f {
			t++
		}
		return t
	})
	integral("trunc", func(f float64) float64 { return float64(int64(f)) })
	floatFn := func(name string, valid func(float64) bool, g func(float64) float64) {
		one(name, func(in *Interp, v Val) (Val, *Err) {
			f, ok, _ := num(v)
			if !ok {
				return nil, E(name + " not allowed")
			}
			if !valid(f) {
				return nil, E(name + ": argument outside the domain")
			}
			res := g(f)
			if math.IsNaN(res) || math.IsInf(res, 0) {
				in.unspec(name + " at a pole / with an infinite result")
			}
			return FloatV(res), nil
		})
	}
	all := func(float64) bool { return true }
	floatFn("sqrt", func(f float64) bool { return f >= 0 }, math.Sqrt)
	floatFn("ln", func(f float64) bool { return f >= 0 }, math.Log) // 0 is a pole: unspecified by the rule above
	floatFn("log10", func(f float64) bool { return f >= 0 }, math.Log10)
	floatFn("exp", all, math.Exp)
	floatFn("sin", all, math.Sin)
	floatFn("cos", all, math.Cos)
	floatFn("tan", all, math.Tan)
	floatFn("asin", func(f float64) bool { return f >= -1 && f <= 1 }, math.Asin)
	floatFn("acos", func(f float64) bool { return f >= -1 && f <= 1 }, math.Acos)
	floatFn("atan", all, math.Atan)
	bin := func(name string, g func(a, b IntV) IntV) {
		S[name] = func(in *Interp, a []Val) (Val, *Err) {
			if len(a) != 2 {
				return nil, E(name + ": wrong number of arguments")
			}
			x, ok1 := a[0].(IntV)
			y, ok2 := a[1].(IntV)
			if !ok1 || !ok2 {
				return nil, E(name + " needs two ints")
			}
			return g(x, y), nil
		}
	}
	bin("binAnd", func(a, b IntV) IntV { return a & b })
	bin("binOr", func(a, b IntV) IntV { return a | b })
	one("goto", func(in *Interp, v Val) (Val, *Err) {
		i, ok := v.(IntV)
		if !ok {
			return nil, E("goto requires an int")
		}
		return mapOf("state", i), nil
	})
	coreNumbers := S["numbers"]
	S["numbers"] = func(in *Interp, a []Val) (Val, *Err) {
		if len(a) == 1 {
			if n, ok := a[0].(IntV); ok && n < 0 {
				in.unspec("numbers(n) with negative n")
			}
		}
		return coreNumbers(in, a)
	}
	coreMin, coreMax := S["min"], S["max"]
	two := func(core func(in *Interp, a []Val) (Val, *Err), name string) func(in *Interp, a []Val) (Val, *Err) {
		return func(in *Interp, a []Val) (Val, *Err) {
			if len(a) != 2 {
				in.unspec(name + " with other than two arguments (description: a, b)")
			} else if l1, e1 := in.Less(a[0], a[1]); e1 == nil && !l1 {
				if l2, e2 := in.Less(a[1], a[0]); e2 == nil && !l2 && !canonEq(a[0], a[1]) {
					in.unspec(name + " of equal numbers of different kind (1 and 1.0)")
				}
			}
			return core(in, a)
		}
	}
	S["min"] = two(coreMin, "min")
	S["max"] = two(coreMax, "max")
	S["sprintf"] = func(in *Interp, a []Val) (Val, *Err) {
		if len(a) == 0 {
			in.unspec("sprintf without arguments")
			return StrV{}, nil
		}
		format, ok := a[0].(StrV)
		if !ok {
			if len(a) == 1 {
				in.unspec("sprintf with a single non-string argument")
			}
			return nil, E("sprintf requires a string as first argument")
		}
		// the verbs of the format
		var verbs []byte
		f := format.S
		for i := 0; i < len(f); i++ {
			if f[i] != '%' {
				continue
			}
			i++
			for i < len(f) && strings.IndexByte("+-# 0123456789.", f[i]) >= 0 {
				i++
			}
			if i >= len(f) {
				in.unspec("sprintf with an incomplete verb")
				break
			}
			if f[i] != '%' {
				verbs = append(verbs, f[i])
			}
		}
		if len(verbs) != len(a)-1 {
			in.unspec("sprintf with a different number of verbs and operands")
		}
		ops := make([]interface{}, 0, len(a)-1)
		for i, v := range a[1:] {
			verb := byte('?')
			if i < len(verbs) {
				verb = verbs[i]
			}
			okVerb := false
			switch x := v.(type) {
			case IntV:
				ops = append(ops, int64(x))
				okVerb = verb == 'd' || verb == 'v' || verb == 'x'
			case FloatV:
				ops = append(ops, float64(x))
				okVerb = verb == 'f' || verb == 'e'
				if verb == 'v' || verb == 'g' {
					_, okVerb = evidentFloat(float64(x))
				}
			case StrV:
				ops = append(ops, x.S)
				okVerb = verb == 's' || verb == 'v'
			default:
				ops = append(ops, fmt.Sprint(v))
			}
			if !okVerb {
				in.unspec("sprintf with a verb/operand pair outside %d %x (int), %f %e %v (float), %s %v (string)")
			}
		}
		return StrV{S: fmt.Sprintf(f, ops...)}, nil
	}
}

// ---------------------------------------------------------------------------------------------
// methods of int, float, bool, closure

func installScalarMethods(in *Interp) {
	M := in.Methods
	toS := Method{0, func(in *Interp, r Val, a []Val) (Val, *Err) {
		s, err := in.str(r)
		if err != nil {
			return nil, err
		}
		return StrV{S: s}, nil
	}}
	M["int.string"], M["float.string"], M["bool.string"] = toS, toS, toS
	M["closure.args"] = Method{0, func(in *Interp, r Val, a []Val) (Val, *Err) {
		return IntV(r.(*CloV).Arity), nil
	}}
	M["closure.invoke"] = Method{1, func(in *Interp, r Val, a []Val) (Val, *Err) {
		l, ok := a[0].(*ListV)
		if !ok {
			return nil, E("invoke needs a list")
		}
		args, err := l.Force()
		if err != nil {
			return nil, err
		}
		return in.Apply(r.(*CloV), args)
	}}
}
