package refsem

// Core library of the reference semantics: the statics and methods that the C01/C02/C16 program
// grammar uses. The full built-in library model of C07 extends these tables (libfull.go).

func installCore(in *Interp) {
	in.Statics["throw"] = func(in *Interp, a []Val) (Val, *Err) {
		if len(a) != 1 {
			return nil, E("arity")
		}
		if s, ok := a[0].(StrV); ok {
			return nil, &Err{Msg: s.S, Thrown: true}
		}
		return nil, E("throw needs a string")
	}
	minmax := func(pickLess bool) func(in *Interp, a []Val) (Val, *Err) {
		return func(in *Interp, a []Val) (Val, *Err) {
			if len(a) == 0 {
				in.unspec("min/max without arguments")
				return nil, E("no arguments")
			}
			m := a[0]
			for _, v := range a[1:] {
				var l bool
				var err *Err
				if pickLess {
					l, err = in.Less(v, m)
				} else {
					l, err = in.Less(m, v)
				}
				if err != nil {
					return nil, err
				}
				if l {
					m = v
				}
			}
			return m, nil
		}
	}
	in.Statics["min"] = minmax(true)
	in.Statics["max"] = minmax(false)
	in.Statics["string"] = func(in *Interp, a []Val) (Val, *Err) {
		if len(a) != 1 {
			return nil, E("arity")
		}
		s, err := in.ToString(a[0])
		if err != nil {
			return nil, err
		}
		return StrV{S: s, Tainted: tainted(a[0])}, nil
	}
	in.Statics["numbers"] = func(in *Interp, a []Val) (Val, *Err) {
		if len(a) != 1 {
			return nil, E("arity")
		}
		n, ok := a[0].(IntV)
		if !ok {
			return nil, E("numbers requires an int")
		}
		return &ListV{Iter: func(yield func(Val, *Err) bool) {
			for i := IntV(0); i < n; i++ {
				if !yield(i, nil) {
					return
				}
			}
		}}, nil
	}

	in.Methods["list.map"] = Method{1, func(in *Interp, r Val, a []Val) (Val, *Err) {
		f, ok := a[0].(*CloV)
		if !ok || f.Arity != 1 {
			return nil, E("map needs a function with one argument")
		}
		src := r.(*ListV)
		return &ListV{Iter: func(yield func(Val, *Err) bool) {
			src.Iter(func(v Val, err *Err) bool {
				if err != nil {
					return yield(nil, err)
				}
				return yield(in.Apply(f, []Val{v}))
			})
		}}, nil
	}}
	in.Methods["list.accept"] = Method{1, func(in *Interp, r Val, a []Val) (Val, *Err) {
		f, ok := a[0].(*CloV)
		if !ok || f.Arity != 1 {
			return nil, E("accept needs a function with one argument")
		}
		src := r.(*ListV)
		return &ListV{Iter: func(yield func(Val, *Err) bool) {
			src.Iter(func(v Val, err *Err) bool {
				if err != nil {
					return yield(nil, err)
				}
				b, err := in.Apply(f, []Val{v})
				if err != nil {
					return yield(nil, err)
				}
				bb, ok := b.(BoolV)
				if !ok {
					return yield(nil, E("accept: not a bool"))
				}
				if bb {
					return yield(v, nil)
				}
				return true
			})
		}}, nil
	}}
	in.Methods["list.reduce"] = Method{1, func(in *Interp, r Val, a []Val) (Val, *Err) {
		f, ok := a[0].(*CloV)
		if !ok || f.Arity != 2 {
			return nil, E("reduce needs a function with two arguments")
		}
		els, err := r.(*ListV).Force()
		if err != nil {
			// the implementation reduces while iterating: the callback runs on the elements before the
			// failing one (observable only through host counters), the outcome is the error either way
			return nil, err
		}
		if len(els) == 0 {
			return nil, E("reduce on empty list")
		}
		acc := els[0]
		for _, e := range els[1:] {
			acc, err = in.Apply(f, []Val{acc, e})
			if err != nil {
				return nil, err
			}
		}
		return acc, nil
	}}
	in.Methods["list.sum"] = Method{0, func(in *Interp, r Val, a []Val) (Val, *Err) {
		els, err := r.(*ListV).Force()
		if err != nil {
			return nil, err
		}
		if len(els) == 0 {
			return nil, E("sum on empty list")
		}
		acc := els[0]
		for _, e := range els[1:] {
			acc, err = in.BinOp("+", acc, e)
			if err != nil {
				return nil, err
			}
		}
		return acc, nil
	}}
	in.Methods["list.size"] = Method{0, func(in *Interp, r Val, a []Val) (Val, *Err) {
		els, err := r.(*ListV).Force()
		if err != nil {
			return nil, err
		}
		return IntV(len(els)), nil
	}}
	in.Methods["list.append"] = Method{1, func(in *Interp, r Val, a []Val) (Val, *Err) {
		els, err := r.(*ListV).Force()
		if err != nil {
			return nil, err
		}
		return Eager(append(append([]Val{}, els...), a[0])), nil
	}}
	in.Methods["list.first"] = Method{0, func(in *Interp, r Val, a []Val) (Val, *Err) {
		var res Val
		var rerr *Err = E("first on empty list")
		r.(*ListV).Iter(func(v Val, err *Err) bool {
			res, rerr = v, err
			return false
		})
		if rerr != nil {
			return nil, rerr
		}
		return res, nil
	}}
	in.Methods["list.string"] = Method{0, func(in *Interp, r Val, a []Val) (Val, *Err) {
		s, err := in.ToString(r)
		if err != nil {
			return nil, err
		}
		return StrV{S: s}, nil
	}}
	in.Methods["map.size"] = Method{0, func(in *Interp, r Val, a []Val) (Val, *Err) {
		return IntV(len(r.(*MapV).Keys)), nil
	}}
	in.Methods["map.put"] = Method{2, func(in *Interp, r Val, a []Val) (Val, *Err) {
		m := r.(*MapV)
		k, ok := a[0].(StrV)
		if !ok {
			return nil, E("put requires a string key")
		}
		if k.Tainted {
			in.unspec("map key derived from an error message")
		}
		if _, has := m.Get(k.S); has {
			return nil, E("key already present")
		}
		// put places the new key in front (AppendMap iterates its own key first); order is not
		// compared anyway
		return &MapV{Keys: append([]string{k.S}, m.Keys...), Vals: append([]Val{a[1]}, m.Vals...)}, nil
	}}
	in.Methods["map.get"] = Method{1, func(in *Interp, r Val, a []Val) (Val, *Err) {
		k, ok := a[0].(StrV)
		if !ok {
			return nil, E("get requires a string key")
		}
		if k.Tainted {
			in.unspec("map key derived from an error message")
		}
		if v, has := r.(*MapV).Get(k.S); has {
			return v, nil
		}
		return nil, E("key not found")
	}}
}
